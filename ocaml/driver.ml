(* Line driver for the extracted model.  One case per input line,
   tab-separated:  <cmd> TAB <args> [TAB <impl result>]
   One output line per case:  <model result> TAB <oracle verdict>
   The oracle verdict judges the *implementation's* result with the boolean
   predicates of the theorem statements ("ok", "bad:<why>", or "-"). *)
open Datatypes
open BinNums
open Conv
open Wire
module L = Stdlib.List
module S = Stdlib.String

let handlers : (string, string list -> string * string) Hashtbl.t = Hashtbl.create 64
let register name f = Hashtbl.replace handlers name f

(* ---- C05: the ranges named by a real tables.list judged by Compact.ranges_ok ---- *)
let () = register "listorder" (fun args ->
  let ranges = split_on ',' (L.nth args 0) in
  let ts = L.map (fun r -> match S.split_on_char '-' r with
    | [a; b] -> { Compact.t_min = n_of_string a; t_max = n_of_string b; t_sha256 = false; t_refs = []; t_logs = [] }
    | _ -> failwith "listorder: range") ranges in
  ("open=ok", if Compact.ranges_ok None ts then "ok" else "bad: tables.list names update-index ranges that are not strictly increasing: " ^ L.nth args 0))

(* ---- C17 ---- *)
let show_suggest = function
  | None -> "none"
  | Some (s, e) -> Printf.sprintf "%d %d" (int_of_nat s) (int_of_nat e)

let rec adj_eq = function
  | a :: (b :: _ as t) -> (z_of_n (Segments.log2 a) = z_of_n (Segments.log2 b)) || adj_eq t
  | _ -> false

let () = register "suggest" (fun args ->
  let sizes = n_list_of_string (L.nth args 0) in
  let m = show_suggest (Segments.suggest sizes) in
  let oracle =
    if L.length args < 2 then "-" else
    let impl = L.nth args 1 in
    if impl = "none" then (if adj_eq sizes then "bad:none-but-adjacent-equal-classes" else "ok")
    else match String.split_on_char ' ' impl with
      | [s; e] ->
        let s = int_of_string s and e = int_of_string e in
        if s + 2 <= e && e <= L.length sizes && s >= 0 then "ok" else "bad:invalid-range"
      | _ -> "bad:unparsable" in
  (m, oracle))

let () = register "autocompact" (fun args ->
  let sizes = n_list_of_string (L.nth args 0) in
  let n = L.length sizes in
  let m = match Segments.suggest sizes with
    | None -> Printf.sprintf "%d %d -" n n
    | Some (s, e) -> let s = int_of_nat s and e = int_of_nat e in
      Printf.sprintf "%d %d %d" n (n - (e - s) + 1) s in
  (m, "-"))

let () = register "depthcost" (fun args ->
  let impl = if L.length args < 2 then "ok" else L.nth args 1 in
  ("ok", if impl = "ok" then "ok" else "bad:" ^ impl))

let () = register "log2" (fun args ->
  let x = n_of_string (L.nth args 0) in
  (string_of_n (Segments.log2_go x), "-"))


(* ---- independent spec decoder: C14 ---- *)
let spec_inflate b = match inflate b with Block.IOk (o, c) -> SpecDecoder.SIOk (o, c) | _ -> SpecDecoder.SIFail

let show_spec_err = function
  | SpecDecoder.SE_short -> "short" | SpecDecoder.SE_magic -> "magic" | SpecDecoder.SE_version -> "version"
  | SpecDecoder.SE_header_copy -> "header-copy" | SpecDecoder.SE_crc -> "crc" | SpecDecoder.SE_hash -> "hash"
  | SpecDecoder.SE_block_type p -> "block-type@" ^ string_of_n p | SpecDecoder.SE_block_len p -> "block-len@" ^ string_of_n p
  | SpecDecoder.SE_padding p -> "padding@" ^ string_of_n p | SpecDecoder.SE_zlib p -> "zlib@" ^ string_of_n p
  | SpecDecoder.SE_restart p -> "restart@" ^ string_of_n p | SpecDecoder.SE_record p -> "record@" ^ string_of_n p
  | SpecDecoder.SE_key_order p -> "key-order@" ^ string_of_n p | SpecDecoder.SE_section w -> "section-" ^ string_of_n w
  | SpecDecoder.SE_index l -> "index-level-" ^ string_of_int (int_of_nat l) | SpecDecoder.SE_objindex -> "object-index"
  | SpecDecoder.SE_update_index -> "update-index" | SpecDecoder.SE_fuel -> "fuel"

(* judge a file against its source records; "ok" or the reason *)
let spec_judge data (refs : Records.ref_record list) (nlogs : Records.log_record list) mn mx sha =
  match SpecDecoder.spec_decode spec_inflate data with
  | Datatypes.Coq_inl e -> "spec:" ^ show_spec_err e
  | Datatypes.Coq_inr t ->
    if show_refs t.SpecDecoder.sp_refs <> show_refs refs then "spec:refs-differ"
    else if show_logs t.SpecDecoder.sp_logs <> show_logs nlogs then "spec:logs-differ"
    else if string_of_n t.SpecDecoder.sp_min <> string_of_n mn || string_of_n t.SpecDecoder.sp_max <> string_of_n mx then "spec:limits"
    else if t.SpecDecoder.sp_sha256 <> sha then "spec:hash-id"
    else "ok"

(* a table written with padding on: every non-log block on a block boundary *)
let spec_padded_ok data =
  match SpecDecoder.spec_aligned spec_inflate data with
  | Datatypes.Coq_inr true -> "ok"
  | Datatypes.Coq_inr false -> "spec:block-off-boundary-in-padded-table"
  | Datatypes.Coq_inl e -> "spec:" ^ show_spec_err e

(* args: <hex of the file> [<1 = written with padding on>] *)
let () = register "wellformed" (fun args ->
  let f = S.split_on_char '|' (L.nth args 0) in
  let data = bytes_of_hex (L.nth f 0) in
  let padded = match f with [_; "1"] -> true | _ -> false in
  let m = match SpecDecoder.spec_decode spec_inflate data with
    | Datatypes.Coq_inl e -> "rejected:" ^ show_spec_err e
    | Datatypes.Coq_inr t ->
      if padded then (match spec_padded_ok data with "ok" -> "ok" | e -> "rejected:" ^ e) else "ok" in
  (m, if m = "ok" then "ok" else "bad:" ^ m))

(* debugging aid: the block layout the judge sees *)
let () = register "layout" (fun args ->
  let data = bytes_of_hex (L.nth args 0) in
  let total = L.length data in
  let version = L.nth data 4 in
  let v1 = (string_of_n version = "1") in
  let hs = if v1 then 24 else 28 and fs = if v1 then 68 else 72 in
  let bs = n_of_string (string_of_int ((int_of_string (string_of_n (L.nth data 5))) * 65536 + (int_of_string (string_of_n (L.nth data 6))) * 256 + int_of_string (string_of_n (L.nth data 7)))) in
  let hsize = if v1 then 20 else 32 in
  let r = SpecDecoder.parse_blocks spec_inflate (nat_of_int (total + 1)) data (n_of_string (string_of_int (total - fs))) bs (nat_of_int hsize) (nat_of_int hs) (n_of_string "0") [] in
  (match r with
   | Datatypes.Coq_inl e -> ("err:" ^ show_spec_err e, "-")
   | Datatypes.Coq_inr bl -> (S.concat " " (L.map (fun b -> Printf.sprintf "%c@%s->%s" (Char.chr (int_of_string (string_of_n b.SpecDecoder.sb_typ))) (string_of_n b.SpecDecoder.sb_pos) (string_of_n b.SpecDecoder.sb_next)) bl), "-")))

(* ---- tables: C01 C02 C11 C14 ---- *)
let show_res f = function
  | Result.Ok a -> f a
  | Result.Err -> "err"
  | Result.Panic _ -> "panic"
  | Result.Fuel -> "fuel"

let ref_key_ltb (r : Records.ref_record) k = Bytes.bytes_ltb r.Records.r_name k
let log_ltb (l : Records.log_record) k = Bytes.bytes_ltb (Records.log_key l) k
let rec drop_while p = function [] -> [] | x :: t as l -> if p x then drop_while p t else l

(* model side of a query on an opened reader *)
let model_query rd q =
  match S.split_on_char ':' q with
  | ["sr"; k] -> show_res show_records (Reader.seek_ref inflate rd (bytes_of_hex k))
  | ["sl"; k; u] -> show_res show_records (Reader.seek_log inflate rd (bytes_of_hex k) (n_of_string u))
  | ["rf"; o] -> show_res show_records (Reader.refs_for inflate rd (bytes_of_hex o))
  | ["rr"; k] -> show_res (function Some r -> show_refs [r] | None -> "") (Reader.read_ref inflate rd (bytes_of_hex k))
  | ["rl"; k; u] -> show_res (function Some l -> show_logs [l] | None -> "") (Reader.read_log_at inflate rd (bytes_of_hex k) (n_of_string u))
  | _ -> "badquery"

(* specification side: what the query must return for the given source records *)
let spec_query (refs : Records.ref_record list) (logs : Records.log_record list) q =
  match S.split_on_char ':' q with
  | ["sr"; k] -> let k = bytes_of_hex k in show_refs (drop_while (fun r -> ref_key_ltb r k) refs)
  | ["sl"; k; u] -> let key = Records.log_key_of (bytes_of_hex k) (n_of_string u) in
    show_logs (drop_while (fun l -> log_ltb l key) logs)
  | ["rf"; o] -> let o = bytes_of_hex o in show_refs (L.filter (fun r -> Records.points_to o r) refs)
  | ["rr"; k] -> let k = bytes_of_hex k in
    (match L.filter (fun r -> Bytes.bytes_eqb r.Records.r_name k) refs with r :: _ -> show_refs [r] | [] -> "")
  | ["rl"; k; u] -> let name = bytes_of_hex k in let key = Records.log_key_of name (n_of_string u) in
    (match drop_while (fun l -> log_ltb l key) logs with
     | l :: _ when Bytes.bytes_eqb l.Records.l_name name -> show_logs [l]
     | _ -> "")
  | _ -> "badquery"

let norm_logs exact hs (logs : Records.log_record list) : Records.log_record list option =
  let zero = L.init hs (fun _ -> N0) in
  let fill = function None -> Some zero | h -> h in
  let rec go acc = function
    | [] -> Some (L.rev acc)
    | l :: t ->
      (match Writer.norm_log exact l with
       | None -> None
       | Some l1 ->
         let l2 = match l1.Records.l_body with
           | None -> l1
           | Some b -> { l1 with Records.l_body = Some { b with Records.lb_old = fill b.Records.lb_old; lb_new = fill b.Records.lb_new } } in
         go (l2 :: acc) t) in
  go [] logs

let () = register "table" (fun args ->
  let f = S.split_on_char '|' (L.nth args 0) in
  let cfg = parse_cfg (L.nth f 0) in
  let mn = n_of_string (L.nth f 1) and mx = n_of_string (L.nth f 2) in
  let refs = parse_list parse_ref (L.nth f 3) and logs = parse_list parse_log (L.nth f 4) in
  let qs = split_on ',' (L.nth f 5) in
  let w = Writer.write_table deflate cfg mn mx refs logs in
  let parts = match w with
    | Result.Ok (empty, data) ->
      if empty then begin
        let first = "empty:" ^ hex_of_bytes data in
        let hs = if cfg.Writer.c_sha256 then 32 else 20 in
        match Reader.rd_open data with
        | Result.Ok rd ->
          first :: "ok" :: L.map (model_query rd) ["sr:"; "sl::18446744073709551615"; "rf:" ^ S.concat "" (L.init hs (fun _ -> "00"))]
        | r -> [first; show_res (fun _ -> "ok") r]
      end
      else begin
        let first = "ok:" ^ hex_of_bytes data in
        match Reader.rd_open data with
        | Result.Ok rd ->
          let sr = show_res show_records (Reader.scan_refs inflate rd) in
          let sl = show_res show_records (Reader.scan_logs inflate rd) in
          first :: "ok" :: sr :: sl :: L.map (model_query rd) qs
        | r -> [first; show_res (fun _ -> "ok") r]
      end
    | r -> [show_res (fun _ -> "") r] in
  let model = S.concat "|" parts in
  (* oracle on the implementation's results *)
  let oracle =
    if L.length args < 2 then "-" else
    let impl = S.split_on_char '|' (L.nth args 1) in
    match impl with
    | w :: "ok" :: sr :: sl :: qres when S.length w > 3 && S.sub w 0 3 = "ok:" ->
      let hs = if cfg.Writer.c_sha256 then 32 else 20 in
      (match norm_logs cfg.Writer.c_exact_log hs logs with
       | None -> "bad:writer-accepted-multi-line-message"
       | Some nlogs ->
         if sr <> show_refs refs then "bad:scan-refs"
         else if sl <> show_logs nlogs then "bad:scan-logs"
         else
           let rec chk qs rs = match qs, rs with
             | [], [] -> "ok"
             | q :: qt, r :: rt -> if spec_query refs nlogs q = r then chk qt rt else "bad:query " ^ q
             | _ -> "bad:query-count" in
           let v = chk qs qres in
           if v <> "ok" then v else
           let wbytes = bytes_of_hex (S.sub w 3 (S.length w - 3)) in
           let j = spec_judge wbytes refs nlogs mn mx cfg.Writer.c_sha256 in
           if j <> "ok" then "bad:" ^ j else
           if cfg.Writer.c_unaligned then "ok" else
           (match spec_padded_ok wbytes with "ok" -> "ok" | e -> "bad:" ^ e))
    | w :: rest when S.length w >= 6 && S.sub w 0 6 = "empty:" ->
      if rest = ["ok"; ""; ""; ""] then "ok" else "bad:empty table does not answer every query with nothing (" ^ S.concat "|" rest ^ ")"
    | w :: _ when w = "panic" -> "bad:writer-panic"
    | _ :: o :: _ when o = "panic" -> "bad:open-panic"
    | _ -> "-" in
  (model, oracle))

(* ---- merged view: C03 (and C11 on stacks) ---- *)
let refs_of_records rs = L.filter_map (function RecCodec.RecRef r -> Some r | _ -> None) rs
let logs_of_records rs = L.filter_map (function RecCodec.RecLog l -> Some l | _ -> None) rs

let parse_table cfg (s : string) =
  match S.split_on_char '~' s with
  | [mn; mx; refs; logs] -> (n_of_string mn, n_of_string mx, parse_list parse_ref refs, parse_list parse_log logs)
  | _ -> failwith "bad table"

(* model writer -> model reader -> decoded table *)
let model_table cfg (mn, mx, refs, logs) : Compact.table option =
  match Writer.write_table deflate cfg mn mx refs logs with
  | Result.Ok (false, data) ->
    (match Reader.rd_open data with
     | Result.Ok rd ->
       (match Reader.scan_refs inflate rd, Reader.scan_logs inflate rd with
        | Result.Ok rr, Result.Ok ll ->
          Some { Compact.t_min = rd.Reader.rd_min; t_max = rd.Reader.rd_max; t_sha256 = rd.Reader.rd_sha256;
                 t_refs = refs_of_records rr; t_logs = logs_of_records ll }
        | _ -> None)
     | _ -> None)
  | _ -> None

let spec_table cfg (mn, mx, refs, logs) : Compact.table option =
  let hs = if cfg.Writer.c_sha256 then 32 else 20 in
  match norm_logs cfg.Writer.c_exact_log hs logs with
  | None -> None
  | Some nl -> Some { Compact.t_min = mn; t_max = mx; t_sha256 = cfg.Writer.c_sha256; t_refs = refs; t_logs = nl }

let merged_query suppress (ts : Compact.table list) q =
  match S.split_on_char ':' q with
  | ["sr"; k] -> show_refs (Compact.merged_refs suppress ts (bytes_of_hex k))
  | ["sl"; k; u] -> show_logs (Compact.merged_logs suppress ts (Records.log_key_of (bytes_of_hex k) (n_of_string u)))
  | ["rf"; o] -> show_refs (Compact.merged_refs_for suppress ts (bytes_of_hex o))
  | ["rr"; k] -> let k = bytes_of_hex k in
    (match Compact.merged_refs suppress ts k with r :: _ when Bytes.bytes_eqb r.Records.r_name k -> show_refs [r] | _ -> "")
  | ["rl"; k; u] -> let name = bytes_of_hex k in
    (match Compact.merged_logs suppress ts (Records.log_key_of name (n_of_string u)) with
     | l :: _ when Bytes.bytes_eqb l.Records.l_name name -> show_logs [l]
     | _ -> "")
  | _ -> "badquery"

(* specification: overlay / view of the source records *)
let spec_merged_query suppress (ts : Compact.table list) q =
  let refs = L.map (fun t -> t.Compact.t_refs) ts and logs = L.map (fun t -> t.Compact.t_logs) ts in
  let ov_r = if suppress then Overlay.view Records.ref_key Records.ref_is_del refs else Overlay.overlay Records.ref_key refs in
  let ov_l = if suppress then Overlay.view Records.log_key Records.log_is_del logs else Overlay.overlay Records.log_key logs in
  spec_query ov_r ov_l q

let rec all_some = function [] -> Some [] | None :: _ -> None | Some x :: t -> (match all_some t with None -> None | Some r -> Some (x :: r))

let () = register "merged" (fun args ->
  let f = S.split_on_char '|' (L.nth args 0) in
  let suppress = L.nth f 0 = "1" in
  let cfg = parse_cfg (L.nth f 1) in
  let tabs = L.map (parse_table cfg) (split_on '#' (L.nth f 2)) in
  let qs = split_on ',' (L.nth f 3) in
  let model = match all_some (L.map (model_table cfg) tabs) with
    | None -> "model-table-failed"
    | Some ts ->
      if not (Compact.new_merged_ok cfg.Writer.c_sha256 ts) then "merged-err"
      else S.concat "|" ("ok" :: L.map (merged_query suppress ts) qs) in
  let oracle =
    if L.length args < 2 then "-" else
    match S.split_on_char '|' (L.nth args 1), all_some (L.map (spec_table cfg) tabs) with
    | "ok" :: qres, Some ts ->
      let rec chk qs rs = match qs, rs with
        | [], [] -> "ok"
        | q :: qt, r :: rt -> if spec_merged_query suppress ts q = r then chk qt rt else "bad:query " ^ q
        | _ -> "bad:query-count" in
      chk qs qres
    | "panic" :: _, _ -> "bad:panic"
    | _ -> "-" in
  (model, oracle))

(* ---- sequential stack histories: C07 C13 C12 ---- *)
let show_status = function StackSeq.SOk -> "ok" | StackSeq.SRejected -> "rejected" | StackSeq.SErr -> "err"

let show_state (st : (Compact.table * coq_N) list) status =
  let ts = L.map fst st in
  S.concat "^" [ show_status status;
                 S.concat "," (L.map (fun t -> string_of_n t.Compact.t_min ^ "-" ^ string_of_n t.Compact.t_max) ts);
                 show_refs (Compact.stack_refs ts); show_logs (Compact.stack_logs ts) ]

type hop = HAdd of bool * Records.ref_record list * Records.log_record list
         | HMulti of Records.ref_record list list
         | HCompact of int * int | HCompactAll | HExpire of Compact.expiry

let parse_hop (s : string) : hop =
  match S.split_on_char ':' s with
  | "A" :: auto :: rest ->
    let body = S.concat ":" rest in
    (match S.split_on_char '~' body with
     | [r; l] -> HAdd (auto = "1", parse_list parse_ref r, parse_list parse_log l)
     | _ -> failwith "bad add")
  | "M" :: rest -> HMulti (L.map (parse_list parse_ref) (S.split_on_char '%' (S.concat ":" rest)))
  | ["C"; f; l] -> HCompact (int_of_string f, int_of_string l)
  | ["CA"] -> HCompactAll
  | ["CE"; t; mx; mn] -> HExpire { Compact.e_time = n_of_string t; e_max_index = n_of_string mx; e_min_index = n_of_string mn }
  | _ -> failwith "bad op"

let () = register "history" (fun args ->
  let f = S.split_on_char '|' (L.nth args 0) in
  let cfg = parse_cfg (L.nth f 0) in
  let name_check = L.nth f 1 = "1" in
  let ops = L.map parse_hop (split_on '!' (L.nth f 2)) in
  let hs = if cfg.Writer.c_sha256 then 32 else 20 in
  (* model run *)
  let st = ref [] in
  let outs = L.map (fun op ->
      let (st', status) = match op with
        | HAdd (auto, refs, logs) -> StackSeq.stack_add deflate inflate cfg name_check auto refs logs !st
        | HMulti txs -> StackSeq.stack_addition deflate inflate cfg name_check txs !st
        | HCompact (a, b) -> StackSeq.stack_compact deflate inflate cfg (nat_of_int a) (nat_of_int b) None !st
        | HCompactAll -> StackSeq.stack_compact_all deflate inflate cfg None !st
        | HExpire e -> StackSeq.stack_compact_all deflate inflate cfg (Some e) !st in
      st := st'; show_state st' status) ops in
  let model = S.concat "!" outs in
  (* oracle on the implementation's observations *)
  let oracle =
    if L.length args < 2 then "-" else
    let obs = L.map (fun o -> S.split_on_char '^' o) (split_on '!' (L.nth args 1)) in
    let rec go prev_refs prev_logs ops obs i =
      match ops, obs with
      | [], _ | _, [] -> "ok"
      | op :: ot, [status; _tabs; refs; logs] :: bt ->
        if status = "panic" then Printf.sprintf "bad:panic at op %d" i else
        let r = if refs = "err" || refs = "panic" then None else Some (parse_list parse_ref refs) in
        let l = if logs = "err" || logs = "panic" then None else Some (parse_list parse_log logs) in
        (match r, l with
         | Some r, Some l ->
           let live_names = L.map (fun x -> x.Records.r_name) r in
           let verdict =
             match op with
             | HCompact _ | HCompactAll ->
               if status <> "ok" then "ok" (* a failed compaction must still leave the view alone *)
               else "ok"
             | _ -> "ok" in
           let verdict =
             if verdict <> "ok" then verdict else
             match op with
             | HCompact _ | HCompactAll ->
               if show_refs r <> show_refs prev_refs then Printf.sprintf "bad:compaction changed refs at op %d" i
               else if show_logs l <> show_logs prev_logs then Printf.sprintf "bad:compaction changed logs at op %d" i
               else "ok"
             | HExpire e ->
               if show_refs r <> show_refs prev_refs then Printf.sprintf "bad:expiry changed refs at op %d" i
               else if status = "ok" && show_logs l <> show_logs (L.filter (Compact.keep_log (Some e)) prev_logs)
               then Printf.sprintf "bad:expiry kept/removed wrong entries at op %d" i
               else if status <> "ok" && show_logs l <> show_logs prev_logs then Printf.sprintf "bad:failed expiry changed logs at op %d" i
               else "ok"
             | HMulti txs ->
               (* table by table: each table of the Addition is a transaction on the view left by the earlier ones *)
               let names0 = L.map (fun x -> x.Records.r_name) prev_refs in
               let rec seq names = function
                 | [] -> true
                 | refs :: rest ->
                   let tx = L.map (fun x -> (x.Records.r_name, Records.ref_is_del x)) refs in
                   let names' = Refname.apply_tx names tx in
                   Refname.conflict_free_b names' && seq names' rest in
               let legal = seq names0 txs in
               (* the Addition taken as ONE transaction (a later table's record for a name wins) *)
               let whole =
                 let tx_all = L.concat (L.map (L.map (fun x -> (x.Records.r_name, Records.ref_is_del x))) txs) in
                 let rec dedup seen = function
                   | [] -> []
                   | (n, d) :: t -> if L.mem n seen then dedup seen t else (n, d) :: dedup (n :: seen) t in
                 let last_wins = L.rev (dedup [] (L.rev tx_all)) in
                 let sorted = L.sort (fun (a, _) (b, _) -> if Bytes.bytes_ltb a b then -1 else if Bytes.bytes_ltb b a then 1 else 0) last_wins in
                 Refname.validate_addition names0 sorted in
               if status = "rejected" then
                 (if not name_check then Printf.sprintf "bad:rejected without name check at op %d" i
                  else if legal then Printf.sprintf "bad:legal Addition refused at op %d" i
                  else if whole then "bad:c12-addition-order"
                  else if show_refs r <> show_refs prev_refs || show_logs l <> show_logs prev_logs then Printf.sprintf "bad:rejected Addition had an effect at op %d" i
                  else "ok")
               else if status = "ok" then
                 (if name_check && not legal then Printf.sprintf "bad:conflicting Addition committed at op %d" i else
                  let er = L.fold_left (fun acc refs -> L.filter (Overlay.live Records.ref_is_del) (Overlay.merge2 Records.ref_key acc refs)) prev_refs txs in
                  if show_refs r <> show_refs er then Printf.sprintf "bad:refs after Addition differ from applying its tables at op %d" i
                  else if show_logs l <> show_logs prev_logs then Printf.sprintf "bad:Addition without logs changed logs at op %d" i
                  else "ok")
               else
                 (if show_refs r <> show_refs prev_refs || show_logs l <> show_logs prev_logs then Printf.sprintf "bad:failed Addition had an effect at op %d" i else "ok")
             | HAdd (_, refs, logs) ->
               let tx = L.map (fun x -> (x.Records.r_name, Records.ref_is_del x)) refs in
               let would_conflict = not (Refname.conflict_free_b (Refname.apply_tx (L.map (fun x -> x.Records.r_name) prev_refs) tx)) in
               if status = "rejected" then
                 (if not name_check then Printf.sprintf "bad:rejected without name check at op %d" i
                  else if not would_conflict then Printf.sprintf "bad:legal transaction refused at op %d" i
                  else if show_refs r <> show_refs prev_refs || show_logs l <> show_logs prev_logs then Printf.sprintf "bad:rejected transaction had an effect at op %d" i
                  else "ok")
               else if status = "ok" then
                 (if name_check && would_conflict then Printf.sprintf "bad:conflicting transaction committed at op %d" i else
                  match norm_logs cfg.Writer.c_exact_log hs logs with
                  | None -> Printf.sprintf "bad:multi-line message accepted at op %d" i
                  | Some nl ->
                    let er = L.filter (Overlay.live Records.ref_is_del) (Overlay.merge2 Records.ref_key prev_refs refs) in
                    let el = L.filter (Overlay.live Records.log_is_del) (Overlay.merge2 Records.log_key prev_logs nl) in
                    if show_refs r <> show_refs er then Printf.sprintf "bad:refs after add differ from applying the transaction at op %d" i
                    else if show_logs l <> show_logs el then Printf.sprintf "bad:logs after add differ from applying the transaction at op %d" i
                    else "ok")
               else (* err *)
                 (if show_refs r <> show_refs prev_refs || show_logs l <> show_logs prev_logs then Printf.sprintf "bad:failed add had an effect at op %d" i else "ok") in
           let verdict = if verdict = "ok" && name_check && not (Refname.conflict_free_b live_names)
             then Printf.sprintf "bad:live names conflict after op %d" i else verdict in
           if verdict <> "ok" then verdict else go r l ot bt (i + 1)
         | _ -> Printf.sprintf "bad:view unreadable after op %d" i)
      | _ -> "bad:observation-format" in
    go [] [] ops obs 0 in
  (model, oracle))

(* ---- stack directories across the two implementations: C15 ---- *)
let run_model_history (spec : string) =
  let f = S.split_on_char '|' spec in
  let cfg = parse_cfg (L.nth f 0) in
  let name_check = L.nth f 1 = "1" in
  let ops = L.map parse_hop (split_on '!' (L.nth f 2)) in
  let st = ref [] in
  let statuses = L.map (fun op ->
      let (st', status) = match op with
        | HAdd (auto, refs, logs) -> StackSeq.stack_add deflate inflate cfg name_check auto refs logs !st
        | HMulti txs -> StackSeq.stack_addition deflate inflate cfg name_check txs !st
        | HCompact (a, b) -> StackSeq.stack_compact deflate inflate cfg (nat_of_int a) (nat_of_int b) None !st
        | HCompactAll -> StackSeq.stack_compact_all deflate inflate cfg None !st
        | HExpire e -> StackSeq.stack_compact_all deflate inflate cfg (Some e) !st in
      st := st'; status) ops in
  (!st, statuses)

(* Go wrote the directory, C read it: impl = <last Go observation>#<C: ok|refs|logs> *)
let () = register "cstack_gc" (fun args ->
  let (st, statuses) = run_model_history (L.nth args 0) in
  let last = match L.rev statuses with s :: _ -> s | [] -> StackSeq.SOk in
  let ts = L.map fst st in
  let refs = show_refs (Compact.stack_refs ts) and logs = show_logs (Compact.stack_logs ts) in
  let model = show_state st last ^ "#ok|" ^ refs ^ "|" ^ logs ^ "#cc=ok" in
  let oracle =
    if L.length args < 2 then "-" else
    match S.split_on_char '#' (L.nth args 1) with
    | [goobs; cview; cc] ->
      (match S.split_on_char '^' goobs, S.split_on_char '|' cview with
       | [_; _; grefs; glogs], ["ok"; crefs; clogs] ->
         if crefs <> grefs then "bad:C reads other refs than Go from the directory Go wrote"
         else if clogs <> glogs then "bad:C reads other logs than Go from the directory Go wrote"
         else if cc <> "cc=ok" then "bad:a compaction of the Go-written directory by a C handle changed what it holds: " ^ cc
         else "ok"
       | _, _ -> "bad:C could not read the directory Go wrote")
    | _ -> "bad:format" in
  (model, oracle))

(* C wrote the directory, Go read it: impl = <C statuses>#<Go observation>; the table layout
   is the C code's own business (its auto-compaction), the view is not *)
let () = register "cstack_cg" (fun args ->
  let (st, statuses) = run_model_history (L.nth args 0) in
  let ts = L.map fst st in
  let refs = show_refs (Compact.stack_refs ts) and logs = show_logs (Compact.stack_logs ts) in
  let mstat = S.concat "," (L.map (fun s -> if s = StackSeq.SOk then "ok" else "err") statuses) in
  let impl = if L.length args < 2 then "" else L.nth args 1 in
  let tabs = match S.split_on_char '#' impl with
    | [_; goobs] -> (match S.split_on_char '^' goobs with [_; t; _; _] -> t | _ -> "")
    | _ -> "" in
  let model = mstat ^ "#ok^" ^ tabs ^ "^" ^ refs ^ "^" ^ logs in
  let oracle =
    if L.length args < 2 then "-" else
    if model = impl then "ok"
    else match S.split_on_char '#' impl with
      | [cst; goobs] ->
        if cst <> mstat then "bad:the C stack accepts / refuses other transactions than the Go stack (C: " ^ cst ^ "; Go and model: " ^ mstat ^ ")"
        else (match S.split_on_char '^' goobs with
            | [_; _; grefs; glogs] ->
              if grefs <> refs then "bad:Go reads other refs from the directory C wrote than were written"
              else if glogs <> logs then "bad:Go reads other logs from the directory C wrote than were written"
              else "ok"
            | _ -> "bad:Go could not read the directory C wrote")
      | _ -> "bad:format" in
  (model, oracle))

(* ---- the C twin: C15 ---- *)
let () = register "ctable" (fun args ->
  let f = S.split_on_char '|' (L.nth args 0) in
  let cfg = parse_cfg (L.nth f 0) in
  let mn = n_of_string (L.nth f 1) and mx = n_of_string (L.nth f 2) in
  let refs = parse_list parse_ref (L.nth f 3) and logs = parse_list parse_log (L.nth f 4) in
  let qs = split_on ',' (L.nth f 5) in
  let impl = if L.length args < 2 then ["-"; "-"; ""; "-"] else S.split_on_char '#' (L.nth args 1) in
  let st = L.nth impl 1 and chex = L.nth impl 2 in
  let hs = if cfg.Writer.c_sha256 then 32 else 20 in
  let w = Writer.write_table deflate cfg mn mx refs logs in
  let read_all data = match Reader.rd_open data with
    | Result.Ok rd -> S.concat "|" ("ok" :: L.map (model_query rd) qs)
    | r -> show_res (fun _ -> "ok") r in
  let leg1 = match w with
    | Result.Ok (false, data) -> read_all data
    | Result.Ok (true, _) -> "go-write-empty"
    | _ -> "go-write-err" in
  let st_class s = if s = "ok" then "ok" else if s = "empty" then "empty" else if S.length s >= 3 && S.sub s 0 3 = "err" then "err" else s in
  let want_st = match w with Result.Ok (false, _) -> "ok" | Result.Ok (true, _) -> "empty" | _ -> "err" in
  let part2 = if st_class st = want_st then st else want_st in
  let leg2 = if st = "ok" then read_all (bytes_of_hex chex) else "-" in
  let model = S.concat "#" [leg1; part2; chex; leg2] in
  let oracle =
    match w, norm_logs cfg.Writer.c_exact_log hs logs with
    | Result.Ok (false, _), Some nlogs ->
      let specl = "ok" :: L.map (spec_query refs nlogs) qs in
      let spec = S.concat "|" specl in
      let where got =
        let gl = S.split_on_char '|' got in
        let rec go k a b = match a, b with
          | x :: a', y :: b' -> if x = y then go (k + 1) a' b' else
              Printf.sprintf " at result %d (query %s): got %d bytes, want %d bytes" k (if k = 0 then "open" else L.nth qs (k - 1)) (S.length x) (S.length y)
          | _ -> " (different number of results)" in
        go 0 gl specl in
      if L.nth impl 0 <> spec then "bad:C reading the Go-written table differs from the records written" ^ where (L.nth impl 0)
      else if st <> "ok" then "bad:C writer refused records the Go writer accepts (" ^ st ^ ")"
      else if L.nth impl 3 <> spec then "bad:Go reading the C-written table differs from the records written" ^ where (L.nth impl 3)
      else
        let j = spec_judge (bytes_of_hex chex) refs nlogs mn mx cfg.Writer.c_sha256 in
        if j = "ok" then "ok" else "bad:C-written table " ^ j
    | _ -> "-" in
  (model, oracle))

(* ---- C19: concurrent readers (validation of the effect translator) ---- *)
let () = register "concurrent" (fun args ->
  let impl = if L.length args < 2 then "ok" else L.nth args 1 in
  ("ok", if impl = "ok" then "ok" else "bad:concurrent results differ from sequential: " ^ impl))

(* ---- unit tie: block writer at the restart cap ---- *)
let () = register "bwcap" (fun args ->
  let oracle =
    if L.length args < 2 then "-" else
    match S.split_on_char ' ' (L.nth args 1) with
    | [_; r; _; st] ->
      let r = int_of_string r and st = int_of_string st in
      if r > 65535 || st <> r then "bad:restart table of " ^ string_of_int r ^ " entries stored with count " ^ string_of_int st ^ " (a reader takes the rest for records)"
      else "ok"
    | _ -> "-" in
  (fun (m, _) -> (m, oracle)) @@
  match S.split_on_char ',' (L.nth args 0) with
  | [n; iv] ->
    let n = int_of_string n and iv = int_of_string iv in
    let four = nat_of_int 4 in
    let w = { Block.bw_typ = RecCodec.typ_ref; bw_hdr = nat_of_int 0; bw_size = nat_of_int (4 + 16 + 64 + 3 * (n + 2) + 2);
              bw_interval = nat_of_int iv; bw_hash = nat_of_int 20; bw_body = L.init 16 (fun _ -> N0);
              bw_restarts = L.init n (fun _ -> four); bw_last = []; bw_entries = nat_of_int n } in
    let r = RecCodec.RecRef { Records.r_name = [n_of_int 107]; r_index = N0; r_val = Records.RDel } in
    (match Block.bw_add w r with
     | Result.Ok (Some w') ->
       let data = Block.bw_finish (fun x -> x) [] w' in
       let len = L.length data in
       let b1 = int_of_n (L.nth data (len - 2)) and b2 = int_of_n (L.nth data (len - 1)) in
       (Printf.sprintf "true %d %d %d" (L.length w'.Block.bw_restarts) len (b1 * 256 + b2), "-")
     | Result.Ok None ->
       let data = Block.bw_finish (fun x -> x) [] w in
       let len = L.length data in
       let b1 = int_of_n (L.nth data (len - 2)) and b2 = int_of_n (L.nth data (len - 1)) in
       (Printf.sprintf "false %d %d %d" (L.length w.Block.bw_restarts) len (b1 * 256 + b2), "-")
     | _ -> ("panic", "-"))
  | _ -> ("badargs", "-"))

(* ---- hostile bytes: C18 ---- *)
let () = register "hostile" (fun args ->
  let f = S.split_on_char '|' (L.nth args 0) in
  let data = bytes_of_hex (L.nth f 0) in
  let qs = split_on ',' (L.nth f 1) in
  let parts = match Reader.rd_open data with
    | Result.Ok rd -> "ok" :: L.map (model_query rd) qs
    | r -> [show_res (fun _ -> "ok") r] in
  let oracle =
    if L.length args < 2 then "-" else
    let impl = S.split_on_char '|' (L.nth args 1) in
    if L.mem "panic" impl then "bad:panic" else if L.mem "hang" impl then "bad:hang"
    else if L.exists (fun p -> S.length p > 5 && S.sub p 0 5 = "alloc") impl then "bad:alloc"
    else if L.mem "merged-panic" impl then "bad:panic through a merged view"
    else if L.mem "merged-hang" impl then "bad:hang through a merged view" else "ok" in
  (S.concat "|" parts, oracle))

(* ---- C09, last clause: the update index after a compaction emptied the stack ---- *)
let () = register "idxrestart" (fun args ->
  let cfg = parse_cfg "0,0,0,0,0,0" in
  let name = bytes_of_hex "726566732f68656164732f61" in
  let zero20 = L.init 20 (fun _ -> N0) in
  let st0 = [] in
  let r1 = { Records.r_name = name; r_index = StackSeq.next_index st0; r_val = Records.RVal zero20 } in
  let (st1, _) = StackSeq.stack_add deflate inflate cfg true false [r1] [] st0 in
  let r2 = { Records.r_name = name; r_index = StackSeq.next_index st1; r_val = Records.RDel } in
  let (st2, _) = StackSeq.stack_add deflate inflate cfg true false [r2] [] st1 in
  let committed = string_of_n (StackSeq.next_index st2) in
  let (st3, _) = StackSeq.stack_compact_all deflate inflate cfg None st2 in
  let model = Printf.sprintf "committed<=%d next=%s tables=%d" (int_of_string committed - 1) (string_of_n (StackSeq.next_index st3)) (L.length st3) in
  let oracle =
    if L.length args < 2 then "-" else
    (try Scanf.sscanf (L.nth args 1) "committed<=%d next=%d tables=%d" (fun c n _ -> if n > c then "ok" else "bad:c09-index-restart")
     with _ -> "bad:format") in
  (model, oracle))

let () = register "hostilebomb" (fun args ->
  let impl = if L.length args < 2 then "" else L.nth args 1 in
  let parts = S.split_on_char '|' impl in
  let oracle =
    if L.mem "panic" parts then "bad:panic" else if L.mem "hang" parts then "bad:hang"
    else if L.exists (fun p -> S.length p > 5 && S.sub p 0 5 = "alloc") parts then "bad:alloc"
    else if L.mem "merged-panic" parts || L.mem "merged-hang" parts then "bad:merged" else "ok" in
  (impl, oracle))

(* ---- stack protocol traces: C04 C05 C06 C08 C09 C10 C16 ---- *)
open StackTrace
let parse_path (s : string) : path =
  let num pre = nat_of_int (int_of_string (S.sub s (S.length pre) (S.length s - S.length pre))) in
  if s = "L" then PL else if s = "LL" then PLL else if s = "DIR" then PDir
  else if S.length s > 3 && S.sub s 0 3 = "TMP" then PTmp (num "TMP")
  else if S.length s > 2 && S.sub s 0 2 = "TL" then PTL (num "TL")
  else if S.length s > 1 && s.[0] = 'T' then PT (num "T")
  else POther
let parse_ids s = L.map (fun x -> nat_of_int (int_of_string x)) (split_on ',' s)
let parse_fres = function "ok" -> FOk | "EEXIST" -> FExist | "ENOENT" -> FNoEnt | _ -> FOtherErr
let parse_apiop (s : string) : apiop =
  let arg2 pre = (* "<pre>(tx,auto)" *)
    let inner = S.sub s (S.length pre + 1) (S.length s - S.length pre - 2) in
    match S.split_on_char ',' inner with
    | [a; b] -> (nat_of_int (int_of_string a), b = "1")
    | _ -> failwith "bad op args" in
  if s = "open" then AOpen else if s = "addempty" then AAddEmpty else if s = "addbad" then AAddBad
  else if s = "compactall" then ACompactAll else if s = "expire" then AExpire else if s = "close" then AClose
  else if s = "read" then ARead else if s = "clean" then AClean
  else if S.length s > 8 && S.sub s 0 8 = "compact(" then
    (let inner = S.sub s 8 (S.length s - 9) in
     match S.split_on_char ',' inner with
     | [a; b] -> ACompact (nat_of_int (int_of_string a), nat_of_int (int_of_string b))
     | _ -> failwith "bad compact args")
  else if S.length s > 8 && S.sub s 0 8 = "addmulti" then (let (t, a) = arg2 "addmulti" in AAddMulti (t, a))
  else if S.length s > 3 && S.sub s 0 3 = "add" then (let (t, a) = arg2 "add" in AAdd (t, a))
  else failwith ("bad api op " ^ s)
let parse_apires (s : string) : apires =
  if s = "ok" then ROk else if s = "lockfailure" then RLockFailure else if s = "rejected" then RRejected
  else if s = "err" then RErr else if s = "nostack" then RNoStack else if s = "readerr" then RReadErr
  else if S.length s > 5 && S.sub s 0 5 = "view[" then begin
    let inner = S.sub s 5 (S.length s - 6) in
    match S.split_on_char '|' inner with
    | [txs; sh] -> RView (parse_ids txs, (if sh = "" then None else Some (nat_of_int (int_of_string sh))))
    | _ -> RPanic
  end else RPanic
let size_table : (int, coq_N) Hashtbl.t ref = ref (Hashtbl.create 16)
let parse_snapshot (s : string) : snapshot =
  match S.split_on_char '|' s with
  | [l; tabs; files] ->
    let lst = if S.length l >= 2 && S.sub l 0 2 = "L=" then S.sub l 2 (S.length l - 2) else "-" in
    let sn_list = if lst = "-" then None else Some (parse_ids lst) in
    let tab t = match S.split_on_char '=' t with
      | [id; info] ->
        let st = match S.split_on_char ':' info with
          | [range; txs] | [range; txs; _] ->
            (match S.split_on_char ':' info with
             | [_; _; sz] -> Hashtbl.replace !size_table (int_of_string id) (n_of_string sz)
             | _ -> ());
            (match S.split_on_char '-' range with
              | [a; b] -> TGood { ti_min = n_of_string a; ti_max = n_of_string b; ti_txs = parse_ids txs }
              | _ -> TBad)
          | _ -> TBad in
        (nat_of_int (int_of_string id), st)
      | _ -> failwith "bad tab" in
    { sn_list; sn_tabs = L.map tab (split_on ';' tabs); sn_files = L.map parse_path (split_on ',' files) }
  | _ -> failwith "bad snapshot"
let parse_trace (s : string) : event list =
  let last = ref { sn_list = None; sn_tabs = []; sn_files = [] } in
  L.filter_map (fun tok ->
    if tok = "" then None
    else if tok = "@=" then Some (ESnap !last)
    else if tok.[0] = '@' then (let sn = parse_snapshot (S.sub tok 1 (S.length tok - 1)) in last := sn; Some (ESnap sn))
    else if tok.[0] = '!' then Some EViol
    else match S.split_on_char ':' tok with
      | h :: "call" :: op :: _ -> Some (ECall (nat_of_int (int_of_string h), parse_apiop op))
      | h :: "ret" :: op :: res :: _ -> Some (ERet (nat_of_int (int_of_string h), parse_apiop op, parse_apires res))
      | [h; "mem"; ids; closed] -> Some (EMem (nat_of_int (int_of_string h), parse_ids ids, nat_of_int (int_of_string closed)))
      | h :: "crash" :: _ -> Some (ECrash (nat_of_int (int_of_string h)))
      | h :: "rename" :: pp :: res :: _ ->
        (match S.split_on_char '>' pp with
         | [a; b] -> Some (EFs (nat_of_int (int_of_string h), FRename (parse_path b), parse_path a, parse_fres res, []))
         | _ -> failwith "bad rename")
      | h :: "read_file" :: p :: res :: rest ->
        Some (EFs (nat_of_int (int_of_string h), FReadFile, parse_path p, parse_fres res, (match rest with [ids] -> parse_ids ids | _ -> [])))
      | h :: op :: p :: res :: _ ->
        let o = match op with "create_excl" -> FCreateExcl | "open" -> FOpen | "remove" -> FRemove
                            | "create_temp" -> FCreateTemp | "read_dir" -> FReadDir | _ -> failwith ("bad fs op " ^ op) in
        Some (EFs (nat_of_int (int_of_string h), o, parse_path p, parse_fres res, []))
      | _ -> failwith ("bad event " ^ tok)) (S.split_on_char ' ' s)

(* ---- the protocol model run on the implementation's schedule (tie) ---- *)
let show_path = function
  | PL -> "L" | PLL -> "LL" | PT n -> "T" ^ string_of_int (int_of_nat n) | PTL n -> "TL" ^ string_of_int (int_of_nat n)
  | PTmp n -> "TMP" ^ string_of_int (int_of_nat n) | PDir -> "DIR" | POther -> "X"
let show_ids l = S.concat "," (L.map (fun n -> string_of_int (int_of_nat n)) l)
let show_fres = function FOk -> "ok" | FExist -> "EEXIST" | FNoEnt -> "ENOENT" | FOtherErr -> "EOTHER"
let show_apiop = function
  | AOpen -> "open" | AAdd (t, a) -> Printf.sprintf "add(%d,%d)" (int_of_nat t) (if a then 1 else 0)
  | AAddMulti (t, a) -> Printf.sprintf "addmulti(%d,%d)" (int_of_nat t) (if a then 1 else 0)
  | AAddEmpty -> "addempty" | AAddBad -> "addbad" | ACompactAll -> "compactall" | ACompact (a, b) -> Printf.sprintf "compact(%d,%d)" (int_of_nat a) (int_of_nat b) | AExpire -> "expire"
  | AClose -> "close" | ARead -> "read" | AClean -> "clean"
let show_apires = function
  | ROk -> "ok" | RLockFailure -> "lockfailure" | RRejected -> "rejected" | RErr -> "err" | RNoStack -> "nostack"
  | RPanic -> "panic" | RReadErr -> "readerr"
  | RView (txs, sh) ->
    let sorted = L.sort compare (L.map int_of_nat txs) in
    Printf.sprintf "view[%s|%s]" (S.concat "," (L.map string_of_int sorted)) (match sh with Some x -> string_of_int (int_of_nat x) | None -> "")
let show_snapshot (s : snapshot) =
  let l = match s.sn_list with None -> "-" | Some l -> show_ids l in
  let tabs = S.concat ";" (L.map (fun (n, st) -> string_of_int (int_of_nat n) ^ "=" ^
     (match st with TGood i -> string_of_n i.ti_min ^ "-" ^ string_of_n i.ti_max ^ ":" ^ show_ids i.ti_txs | TBad -> "BAD")) s.sn_tabs) in
  let files = L.sort compare (L.map show_path s.sn_files) in
  Printf.sprintf "@L=%s|%s|%s" l tabs (S.concat "," files)
let show_event = function
  | EFs (h, op, p, r, names) ->
    let h = string_of_int (int_of_nat h) in
    (match op with
     | FRename d -> Printf.sprintf "%s:rename:%s>%s:%s" h (show_path p) (show_path d) (show_fres r)
     | FReadFile -> Printf.sprintf "%s:read_file:%s:%s:%s" h (show_path p) (show_fres r) (show_ids names)
     | FCreateExcl -> Printf.sprintf "%s:create_excl:%s:%s" h (show_path p) (show_fres r)
     | FOpen -> Printf.sprintf "%s:open:%s:%s" h (show_path p) (show_fres r)
     | FRemove -> Printf.sprintf "%s:remove:%s:%s" h (show_path p) (show_fres r)
     | FCreateTemp -> Printf.sprintf "%s:create_temp:%s:%s" h (show_path p) (show_fres r)
     | FReadDir -> Printf.sprintf "%s:read_dir:%s:%s" h (show_path p) (show_fres r))
  | ESnap s -> show_snapshot s
  | ECall (h, o) -> Printf.sprintf "%d:call:%s:-" (int_of_nat h) (show_apiop o)
  | ERet (h, o, r) -> Printf.sprintf "%d:ret:%s:%s" (int_of_nat h) (show_apiop o) (show_apires r)
  | EMem (h, n, c) -> Printf.sprintf "%d:mem:%s:%d" (int_of_nat h) (show_ids n) (int_of_nat c)
  | ECrash h -> Printf.sprintf "%d:crash:-:-" (int_of_nat h)
  | EViol -> "!viol"

(* the order in which a Go map is walked is arbitrary: within a run of consecutive
   table removals by one handle, sort the removals and keep only the last snapshot *)
let normalise (evs : event list) : string list =
  let is_rm = function EFs (_, FRemove, PT _, _, _) -> true | _ -> false in
  let rec go acc = function
    | [] -> L.rev acc
    | (EFs (h, FRemove, PT _, _, _) as e) :: t when false ->
      let rec take run last rest = match rest with
        | (ESnap s) :: t' -> take run (Some s) t'
        | (EFs (h', FRemove, PT _, _, _) as e') :: t' when h' = h -> take (e' :: run) last t'
        | _ -> (run, last, rest) in
      let (run, last, rest) = take [e] None t in
      let strs = L.sort compare (L.map show_event run) in
      let acc = L.rev_append strs acc in
      let acc = match last with Some s -> show_snapshot s :: acc | None -> acc in
      go acc rest
    | e :: t -> go (show_event e :: acc) t in
  ignore is_rm; go [] evs

let strip_size_snapshot (s : snapshot) = s

let model_stack_trace (args0 : string) (impl_evs : event list) : string option =
  (* args0 = "sha,giveup|setup|scripts|schedule" *)
  match S.split_on_char '|' args0 with
  | flags :: _setup :: scripts :: _ ->
    let scripts_s = scripts in
    let give_up = (match S.split_on_char ',' flags with _ :: g :: _ -> g = "1" | _ -> false) in
    let foreign = L.mem "foreign0" (S.split_on_char ',' flags) in
    let sha = (match S.split_on_char ',' flags with x :: _ -> x = "1" | _ -> false) in
    let split_ops (sc : string) : string list =
      let buf = Buffer.create 16 and out = ref [] and depth = ref 0 in
      S.iter (fun ch ->
          if ch = '(' then incr depth; if ch = ')' then decr depth;
          if ch = ',' && !depth = 0 then (out := Buffer.contents buf :: !out; Buffer.clear buf)
          else Buffer.add_char buf ch) sc;
      if Buffer.length buf > 0 then out := Buffer.contents buf :: !out;
      L.rev !out in
    let scripts = L.map (fun sc -> L.map parse_apiop (split_ops sc)) (S.split_on_char ';' scripts) in
    ignore scripts_s;
    Some (S.concat " " (
      (* initial tables and the size oracle come from the implementation's snapshots *)
      let sizes : (int, coq_N) Hashtbl.t = Hashtbl.create 16 in
      ignore sizes;
      let init = match impl_evs with ESnap s :: _ -> s | _ -> { sn_list = None; sn_tabs = []; sn_files = [] } in
      let tabs = L.filter_map (fun (n, st) -> match st with
          | TGood i -> Some (n, { StackProto.tf_min = i.ti_min; tf_max = i.ti_max; tf_txs = i.ti_txs;
                                  tf_size = (try Hashtbl.find !size_table (int_of_nat n) with Not_found -> N0);
                                  tf_hash = sha })
          | TBad -> None) init.sn_tabs in
      let sched = L.filter_map (function
          | ECall (h, _) -> Some (StackProto.Step (h, None))
          | EFs (h, (FRemove | FOpen), PT n, _, _) -> Some (StackProto.Step (h, Some n))
          | EFs (h, _, _, _, _) -> Some (StackProto.Step (h, None))
          | ECrash h -> Some (StackProto.Crash h)
          | _ -> None) impl_evs in
      let oracle n = try Hashtbl.find !size_table (int_of_nat n) with Not_found -> N0 in
      let attempts = if give_up then nat_of_int 1 else nat_of_int 50 in
      (* handle 0 of a foreign0 scenario is configured with the other hash type *)
      let hscripts = L.mapi (fun i sc -> ((if foreign && i = 0 then not sha else sha), sc)) scripts in
      normalise (StackProto.trace_of oracle attempts tabs hscripts sched)))
  | _ -> None

let () = register "stackrun" (fun args ->
  size_table := Hashtbl.create 16;
  let impl_evs = if L.length args < 2 then [] else parse_trace (L.nth args 1) in
  let model =
    match model_stack_trace (L.nth args 0) impl_evs with
    | None -> "-nomodel-"
    | Some m ->
      (* the harness appends one final snapshot after the run *)
      let impl_body = match L.rev impl_evs with ESnap _ :: r -> L.rev r | _ -> impl_evs in
      let i = S.concat " " (normalise impl_body) in
      if m = i then L.nth args 1
      else begin
        let ml = S.split_on_char ' ' m and il = S.split_on_char ' ' i in
        let rec first k a b = match a, b with
          | x :: a', y :: b' -> if x = y then first (k + 1) a' b' else Printf.sprintf "MODEL-DIFF at event %d: model=%s impl=%s" k x y
          | x :: _, [] -> Printf.sprintf "MODEL-DIFF at event %d: model=%s impl=<end>" k x
          | [], y :: _ -> Printf.sprintf "MODEL-DIFF at event %d: model=<end> impl=%s" k y
          | [], [] -> "MODEL-DIFF?" in
        first 0 ml il
      end in
  let oracle =
    if L.length args < 2 then "-" else
    let tr = impl_evs in
    let want = match Sys.getenv_opt "VERIF_PROP" with Some p -> S.lowercase_ascii p | None -> "all" in
    let checks = [ ("c04", c04_ok); ("c05", c05_ok); ("c06", c06_ok); ("c08", c08_ok); ("c09", c09_ok); ("c10", c10_ok); ("c16", c16_ok) ] in
    (* a handle configured with the wrong hash id can never be refreshed: C09's "the retry succeeds"
       is about properly configured handles; everything else is demanded of these traces too *)
    let foreign = (match S.split_on_char '|' (L.nth args 0) with
        | flags :: _ -> L.mem "foreign0" (S.split_on_char ',' flags) | [] -> false) in
    let checks = if foreign then L.filter (fun (n, _) -> n <> "c09") checks else checks in
    let bad = L.filter_map (fun (n, f) -> if (want = "all" || want = n) && not (f tr) then Some n else None) checks in
    (* C09 read strictly fails where a stale Add's reload unlinked unlisted tables: a recorded finding *)
    let bad = L.map (fun n -> if n = "c09" && c09_ok_gc tr then "c09-gc-only" else n) bad in
    if bad = [] then "ok" else "bad:" ^ S.concat "," bad in
  (model, oracle))

let () =
  try
    while true do
      let line = input_line stdin in
      let fields = String.split_on_char '\t' line in
      match fields with
      | [] | [""] -> print_string "\t-\n"
      | cmd :: args ->
        let (m, o) =
          match Hashtbl.find_opt handlers cmd with
          | None -> ("unknown-command:" ^ cmd, "-")
          | Some f -> (try f args with e -> ("driver-exception:" ^ Printexc.to_string e, "-")) in
        print_string m; print_char '\t'; print_string o; print_char '\n'
    done
  with End_of_file -> ()
