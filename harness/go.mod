module verifharness

go 1.21

require github.com/google/reftable v0.0.0

replace github.com/google/reftable => ../reftable
