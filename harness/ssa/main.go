// C19 translator: loads the reftable package of a scratch copy of the working
// tree, builds SSA, computes the functions reachable from the read API
// (class-hierarchy call graph) and emits, for every memory-writing instruction
// in them, who owns the written location.  Output: a Coq data file
// (gen/EffectsData.v) for the reflection theorem of Properties/C19.v.
package main

import (
	"flag"
	"fmt"
	"go/token"
	"go/types"
	"os"
	"sort"
	"strings"

	"golang.org/x/tools/go/callgraph/cha"
	"golang.org/x/tools/go/packages"
	"golang.org/x/tools/go/ssa"
	"golang.org/x/tools/go/ssa/ssautil"
)

// types whose values are shared between goroutines by the property's scenario
var sharedTypes = map[string]bool{"Reader": true, "Merged": true, "blockReader": true, "fileBlockSource": true,
	"ByteBlockSource": true, "Stack": true, "header": true, "footer": true, "readerOffsets": true}

var roots = []string{
	"(*Reader).SeekRef", "(*Reader).SeekLog", "(*Reader).RefsFor", "(*Reader).seekRecord",
	"(*Merged).SeekRef", "(*Merged).SeekLog", "(*Merged).RefsFor", "(*Merged).seekRecord",
	"(*Iterator).NextRef", "(*Iterator).NextLog", "ReadRef", "ReadLogAt",
	"(*Reader).MaxUpdateIndex", "(*Reader).MinUpdateIndex", "(*Reader).HashID", "(*Reader).Name",
	"(*Merged).MaxUpdateIndex", "(*Merged).MinUpdateIndex", "(*Merged).HashID", "(*Merged).Name",
	"(*fileBlockSource).ReadBlock", "(*ByteBlockSource).ReadBlock", "(*fileBlockSource).Size", "(*ByteBlockSource).Size",
}

type effect struct {
	fn, pos, kind, owner, typ string
	shared                   bool
}

func namedOf(t types.Type) string {
	for {
		switch x := t.(type) {
		case *types.Pointer:
			t = x.Elem()
			continue
		case *types.Named:
			return x.Obj().Name()
		}
		return ""
	}
}

// owner of the location an address value denotes
func classify(v ssa.Value, depth int) (owner string, typ string, shared bool) {
	if depth > 40 {
		return "unknown", "", true
	}
	switch x := v.(type) {
	case *ssa.Alloc:
		return "fresh", namedOf(x.Type()), false
	case *ssa.MakeSlice, *ssa.MakeMap, *ssa.MakeChan, *ssa.MakeInterface, *ssa.MakeClosure:
		return "fresh", "", false
	case *ssa.FieldAddr:
		t := namedOf(x.X.Type())
		o, _, s := classify(x.X, depth+1)
		if o == "fresh" {
			// a struct allocated by this very activation (composite literal, new): not yet visible to anybody else
			return "fresh", t, false
		}
		if sharedTypes[t] {
			return "field-of-shared", t, true
		}
		return "field-of-" + t, t, s
	case *ssa.IndexAddr:
		return classify(x.X, depth+1)
	case *ssa.Slice:
		return classify(x.X, depth+1)
	case *ssa.UnOp: // load of a pointer / slice header from somewhere
		if x.Op == token.MUL {
			// the loaded value lives in x.X; what it points to is owned by the struct it was loaded from
			if fa, ok := x.X.(*ssa.FieldAddr); ok {
				t := namedOf(fa.X.Type())
				if sharedTypes[t] {
					return "reached-through-shared", t, true
				}
				return "reached-through-" + t, t, false
			}
			return classify(x.X, depth+1)
		}
	case *ssa.Parameter:
		t := namedOf(x.Type())
		if sharedTypes[t] {
			return "param-shared", t, true
		}
		if t == "" {
			// a slice / map / pointer to a basic type handed in by the caller
			return "param-buffer", x.Type().String(), false
		}
		return "param-" + t, t, false
	case *ssa.Global:
		return "global", x.Name(), true
	case *ssa.Phi:
		worst, wt, ws := "fresh", "", false
		for _, e := range x.Edges {
			o, t, s := classify(e, depth+1)
			if s || worst == "fresh" {
				worst, wt, ws = o, t, s
			}
			if s {
				break
			}
		}
		return worst, wt, ws
	case *ssa.Call:
		// result of a call (append, make-like helpers): treat append(x, ...) as x's owner
		if b, ok := x.Call.Value.(*ssa.Builtin); ok && b.Name() == "append" {
			return classify(x.Call.Args[0], depth+1)
		}
		return "call-result", namedOf(x.Type()), false
	case *ssa.Extract, *ssa.TypeAssert, *ssa.ChangeType, *ssa.Convert, *ssa.ChangeInterface, *ssa.FreeVar, *ssa.Lookup, *ssa.Field, *ssa.Index:
		t := namedOf(v.Type())
		if sharedTypes[t] {
			return "value-of-shared", t, true
		}
		return "derived-" + t, t, false
	case *ssa.Const:
		return "const", "", false
	}
	t := namedOf(v.Type())
	return "other", t, sharedTypes[t]
}

func main() {
	dir := flag.String("dir", ".", "directory of the reftable package")
	out := flag.String("out", "EffectsData.v", "output file")
	flag.Parse()
	cfg := &packages.Config{Mode: packages.LoadAllSyntax, Dir: *dir, Env: append(os.Environ(), "GOFLAGS=-mod=mod", "GOPROXY=off")}
	pkgs, err := packages.Load(cfg, ".")
	if err != nil || len(pkgs) == 0 || len(pkgs[0].Errors) > 0 {
		fmt.Fprintln(os.Stderr, "load failed:", err)
		if len(pkgs) > 0 {
			fmt.Fprintln(os.Stderr, pkgs[0].Errors)
		}
		os.Exit(2)
	}
	prog, spkgs := ssautil.AllPackages(pkgs, ssa.InstantiateGenerics)
	prog.Build()
	pkg := spkgs[0]
	cg := cha.CallGraph(prog)
	// reachable functions of the package from the roots
	reach := map[*ssa.Function]bool{}
	var work []*ssa.Function
	byName := map[string]*ssa.Function{}
	for fn := range ssautil.AllFunctions(prog) {
		if fn.Pkg == pkg {
			byName[fn.RelString(pkg.Pkg)] = fn
		}
	}
	var missing []string
	for _, r := range roots {
		if fn, ok := byName[r]; ok {
			work = append(work, fn)
		} else {
			missing = append(missing, r)
		}
	}
	for len(work) > 0 {
		fn := work[len(work)-1]
		work = work[:len(work)-1]
		if reach[fn] {
			continue
		}
		reach[fn] = true
		if n := cg.Nodes[fn]; n != nil {
			for _, e := range n.Out {
				c := e.Callee.Func
				if c.Pkg == pkg && !reach[c] {
					work = append(work, c)
				}
			}
		}
		for _, an := range fn.AnonFuncs {
			work = append(work, an)
		}
	}
	var effs []effect
	var fns []string
	for fn := range reach {
		fns = append(fns, fn.RelString(pkg.Pkg))
		for _, b := range fn.Blocks {
			for _, ins := range b.Instrs {
				var addr ssa.Value
				kind := ""
				switch x := ins.(type) {
				case *ssa.Store:
					addr, kind = x.Addr, "store"
				case *ssa.MapUpdate:
					addr, kind = x.Map, "mapupdate"
				case *ssa.Call:
					if bi, ok := x.Call.Value.(*ssa.Builtin); ok {
						switch bi.Name() {
						case "copy":
							addr, kind = x.Call.Args[0], "copy"
						case "delete":
							addr, kind = x.Call.Args[0], "mapdelete"
						}
					}
				case *ssa.Send:
					addr, kind = x.Chan, "send"
				}
				if addr == nil {
					continue
				}
				o, t, s := classify(addr, 0)
				p := prog.Fset.Position(ins.Pos())
				effs = append(effs, effect{fn.RelString(pkg.Pkg), fmt.Sprintf("%s:%d", p.Filename[strings.LastIndex(p.Filename, "/")+1:], p.Line), kind, o, t, s})
			}
		}
	}
	sort.Strings(fns)
	sort.Slice(effs, func(i, j int) bool {
		if effs[i].fn != effs[j].fn {
			return effs[i].fn < effs[j].fn
		}
		return effs[i].pos < effs[j].pos
	})
	f, err := os.Create(*out)
	if err != nil {
		panic(err)
	}
	fmt.Fprintln(f, "(* GENERATED by harness/ssa from the working tree on every run of the C19 check; do not edit. *)")
	fmt.Fprintln(f, "From Coq Require Import List String.\nImport ListNotations.\nLocal Open Scope string_scope.")
	fmt.Fprintln(f, "Record effect := { e_fn : string; e_pos : string; e_kind : string; e_owner : string; e_type : string; e_shared : bool }.")
	fmt.Fprintln(f, "Definition reachable_functions : list string := [")
	for i, n := range fns {
		sep := ";"
		if i == len(fns)-1 {
			sep = ""
		}
		fmt.Fprintf(f, "  %q%s\n", n, sep)
	}
	fmt.Fprintln(f, "].")
	fmt.Fprintln(f, "Definition missing_roots : list string := [")
	for i, n := range missing {
		sep := ";"
		if i == len(missing)-1 {
			sep = ""
		}
		fmt.Fprintf(f, "  %q%s\n", n, sep)
	}
	fmt.Fprintln(f, "].")
	fmt.Fprintln(f, "Definition effects : list effect := [")
	for i, e := range effs {
		sep := ";"
		if i == len(effs)-1 {
			sep = ""
		}
		sh := "false"
		if e.shared {
			sh = "true"
		}
		fmt.Fprintf(f, "  {| e_fn := %q; e_pos := %q; e_kind := %q; e_owner := %q; e_type := %q; e_shared := %s |}%s\n",
			e.fn, e.pos, e.kind, e.owner, e.typ, sh, sep)
	}
	fmt.Fprintln(f, "].")
	f.Close()
	fmt.Printf("functions=%d effects=%d missing_roots=%d\n", len(fns), len(effs), len(missing))
	for _, e := range effs {
		if e.shared {
			fmt.Printf("SHARED-WRITE %s %s %s %s %s\n", e.fn, e.pos, e.kind, e.owner, e.typ)
		}
	}
}
