package main

// Sequential histories on a real stack directory (one handle): Add with and
// without auto-compaction, compaction of arbitrary contiguous ranges,
// CompactAll with and without reflog expiry.  Serves C07, C13, C12, C14.

import (
	"fmt"
	"io/ioutil"
	"os"
	"path/filepath"
	"sort"
	"strings"

	"github.com/google/reftable"
)

func init() {
	props["c07"] = func(c *ctx) error { return runHistories(c, "c07") }
	props["c13"] = func(c *ctx) error { return runHistories(c, "c13") }
	props["c12"] = func(c *ctx) error { return runHistories(c, "c12") }
}

var conflictNames = []string{"a", "a/b", "a/b/c", "a/c", "ab", "a.", "a/.", "b", "b/a", "a/..", "a//b", "c/", "/c", "d"}

type hop struct {
	kind  string // A (add), C (compact range), CA (compact all), CE (compact all + expiry)
	refs  []reftable.RefRecord
	multi [][]reftable.RefRecord // M: a multi-table Addition, table k at update index next+k
	logs  []reftable.LogRecord
	auto  bool
	first int
	last  int
	exp   reftable.LogExpirationConfig
}

func (o hop) String() string {
	switch o.kind {
	case "A":
		return fmt.Sprintf("A:%d:%s~%s", b2i(o.auto), fmtRefs(o.refs), fmtLogs(o.logs))
	case "M":
		var parts []string
		for _, rs := range o.multi {
			parts = append(parts, fmtRefs(rs))
		}
		return "M:" + strings.Join(parts, "%")
	case "C":
		return fmt.Sprintf("C:%d:%d", o.first, o.last)
	case "CA":
		return "CA"
	case "CE":
		return fmt.Sprintf("CE:%d:%d:%d", o.exp.Time, o.exp.MaxUpdateIndex, o.exp.MinUpdateIndex)
	}
	return "?"
}

// residueCheck (C16): every observation is made with all handles idle, so the directory must hold
// exactly tables.list and the tables it names; anything else is appended to the status
var residueCheck bool

func residue(dir string) string {
	listed := map[string]bool{"tables.list": true}
	for _, n := range readList(dir) {
		listed[n] = true
	}
	var extra []string
	ents, _ := ioutil.ReadDir(dir)
	for _, e := range ents {
		if !listed[e.Name()] {
			extra = append(extra, e.Name())
		}
	}
	if len(extra) == 0 {
		return ""
	}
	return "+residue[" + strings.Join(extra, ",") + "]"
}

// observation after an operation: status;tables;refs;logs
func observe(st *reftable.Stack, dir string, status string) string {
	if residueCheck {
		status += residue(dir)
	}
	var tabs []string
	for _, n := range readList(dir) {
		var min, max uint64
		var rnd string
		fmt.Sscanf(n, "0x%012x-0x%012x-%s", &min, &max, &rnd)
		tabs = append(tabs, fmt.Sprintf("%d-%d", min, max))
	}
	m := st.Merged()
	refs := runQuery(m, "sr:")
	logs := runQuery(m, fmt.Sprintf("sl::%d", ^uint64(0)))
	return fmt.Sprintf("%s^%s^%s^%s", status, strings.Join(tabs, ","), refs, logs)
}

func runHistories(c *ctx, which string) error {
	n := 200
	if c.thorough() {
		n = 4000
	}
	hist := map[string]int{}
	if which == "c07" {
		if err := addAfterCommitRegression(c); err != nil {
			return err
		}
	}
	// C12: every legal state over a small alphabet rich in prefix relations x every transaction over
	// it (each name created, deleted or left alone), through Add: the validator on all combinations
	var scripts [][]hop
	if which == "c12" {
		alpha := []string{"a", "a/b", "a/c", "b"}
		if c.thorough() {
			alpha = []string{"a", "a/b", "a/b/c", "a/c", "ab", "b"}
		}
		legal := func(set []string) bool {
			for _, x := range set {
				for _, y := range set {
					if x != y && strings.HasPrefix(y, x+"/") {
						return false
					}
				}
			}
			return true
		}
		for m := 0; m < 1<<uint(len(alpha)); m++ {
			var state []string
			for k, nm := range alpha {
				if m>>uint(k)&1 == 1 {
					state = append(state, nm)
				}
			}
			if !legal(state) {
				continue
			}
			pw := 1
			for range alpha {
				pw *= 3
			}
			for t := 1; t < pw; t++ {
				var setup, tx hop
				setup.kind, tx.kind = "A", "A"
				for _, nm := range state {
					setup.refs = append(setup.refs, reftable.RefRecord{RefName: nm, Value: []byte{1}})
				}
				x := t
				for _, nm := range alpha {
					switch x % 3 {
					case 1:
						tx.refs = append(tx.refs, reftable.RefRecord{RefName: nm, Value: []byte{2}})
					case 2:
						tx.refs = append(tx.refs, reftable.RefRecord{RefName: nm})
					}
					x /= 3
				}
				if len(state) == 0 {
					scripts = append(scripts, []hop{tx})
				} else {
					scripts = append(scripts, []hop{setup, tx})
				}
			}
		}
		n += len(scripts)
		hist["exhaustive-state-x-transaction-histories"] = len(scripts)
	}
	for i := 0; i < n; i++ {
		var script []hop
		if i < len(scripts) {
			script = scripts[i]
		}
		var cfg tcfg
		cfg.SHA256 = c.rng.Intn(4) == 0
		cfg.BlockSize = uint32(256 + c.rng.Intn(300))
		if c.rng.Intn(3) == 0 {
			cfg.BlockSize = 0
		}
		cfg.Restart = c.rng.Intn(5)
		cfg.Unaligned = c.rng.Intn(5) == 0
		cfg.Exact = c.rng.Intn(3) == 0
		cfg.SkipIdx = c.rng.Intn(3) == 0
		// wide histories: many names and large transactions in small blocks, so that the tables a
		// compaction writes have multi-block sections with index blocks (ref, obj and log)
		wide := which != "c12" && c.rng.Intn(6) == 0
		if wide {
			cfg.BlockSize = uint32(256 + c.rng.Intn(200))
			hist["wide-histories"]++
		}
		skipNameCheck := which != "c12" && c.rng.Intn(2) == 0
		if which == "c15" {
			skipNameCheck = true
		}
		dir := filepath.Join(c.work, fmt.Sprintf("h%d", i))
		os.MkdirAll(dir, 0755)
		gocfg := cfg.cfg()
		gocfg.SkipNameCheck = skipNameCheck
		st, err := reftable.NewStack(dir, gocfg)
		if err != nil {
			return err
		}
		// mixed configuration: the transactions go through a handle that stores reflog messages
		// verbatim, the compactions through a second handle opened WITHOUT that option; a
		// compaction copies records, whoever runs it
		stc := st
		if cfg.Exact && which != "c12" && which != "c15" && c.rng.Intn(3) == 0 {
			cc := gocfg
			cc.ExactLogMessage = false
			if h2, err := reftable.NewStack(dir, cc); err == nil {
				stc = h2
				defer h2.Close()
				hist["mixed-config-histories"]++
			}
		}
		hs := cfg.hashSize()
		var pool []string
		if which == "c12" {
			pool = conflictNames
		} else {
			seen := map[string]bool{}
			want := 3 + c.rng.Intn(8)
			if wide {
				want = 30 + c.rng.Intn(30)
			}
			for len(pool) < want {
				nm := "refs/" + genName(c.rng)
				if len(nm) < 60 && !seen[nm] && !strings.Contains(nm, "\x00") {
					seen[nm] = true
					pool = append(pool, nm)
				}
			}
			if skipNameCheck {
				pool = append(pool, "a", "a/b")
			}
			if which == "c15" && c.rng.Intn(3) == 0 {
				// a name that fits the writing handle's blocks but not those of a handle with small blocks
				pool = append(pool, "refs/heads/"+strings.Repeat("L", 120+c.rng.Intn(60)))
			}
		}
		var oids [][]byte
		for j := 0; j < 3; j++ {
			h := make([]byte, hs)
			c.rng.Read(h)
			oids = append(oids, h)
		}
		nops := 3 + c.rng.Intn(10)
		cancelPrefix := which != "c12" && which != "c13" && c.rng.Intn(8) == 0
		var cancelNames []string
		if cancelPrefix {
			nops += 4
			cancelNames = append(cancelNames, pool[c.rng.Intn(len(pool))])
			if n2 := pool[c.rng.Intn(len(pool))]; n2 > cancelNames[0] {
				cancelNames = append(cancelNames, n2)
			}
			hist["cancelling-prefix-histories"]++
		}
		var ops []string
		var obs []string
		seenTab := map[string]bool{}
		type lkey struct {
			n string
			u uint64
		}
		var liveLogs []lkey
		if script != nil {
			nops = len(script)
		}
		for j := 0; j < nops; j++ {
			var o hop
			ntab := len(readList(dir))
			r := c.rng.Intn(10)
			switch {
			case script != nil:
				o = script[j]
				ui := st.NextUpdateIndex()
				o.refs = append([]reftable.RefRecord{}, o.refs...)
				for k := range o.refs {
					o.refs[k].UpdateIndex = ui
					if o.refs[k].Value != nil {
						o.refs[k].Value = oids[int(o.refs[k].Value[0])%3]
					}
				}
			case which == "c13" && j == nops-1 || (which == "c13" && r == 0):
				o.kind = "CE"
				lim := func() uint64 {
					switch c.rng.Intn(4) {
					case 0:
						return 0
					case 1:
						return uint64(1 + c.rng.Intn(3))
					default:
						return uint64(1 + c.rng.Intn(nops+2))
					}
				}
				if c.rng.Intn(2) == 0 {
					o.exp.Time = uint64(995 + c.rng.Intn(20))
				}
				if c.rng.Intn(2) == 0 {
					o.exp.MaxUpdateIndex = lim()
				}
				if c.rng.Intn(2) == 0 {
					o.exp.MinUpdateIndex = lim()
				}
			case r <= 2 && ntab >= 2 && which != "c12":
				o.kind = "C"
				o.first = c.rng.Intn(ntab)
				if c.rng.Intn(2) == 0 && ntab >= 3 {
					o.first = 1 + c.rng.Intn(ntab-1) // a range with tables beneath it
				}
				o.last = o.first + c.rng.Intn(ntab-o.first)
			case r == 3 && which != "c12":
				o.kind = "CA"
			case (r == 4 && which != "c13") || (r >= 7 && which == "c12"):
				// a multi-table Addition of 2..3 tables, 1..2 refs each
				o.kind = "M"
				ui := st.NextUpdateIndex()
				nt := 2 + c.rng.Intn(2)
				for t := 0; t < nt; t++ {
					pick := map[string]bool{}
					for k := 0; k < 1+c.rng.Intn(2); k++ {
						pick[pool[c.rng.Intn(len(pool))]] = true
					}
					var nm []string
					for k := range pick {
						nm = append(nm, k)
					}
					sort.Strings(nm)
					var rs []reftable.RefRecord
					for _, k := range nm {
						rec := reftable.RefRecord{RefName: k, UpdateIndex: ui + uint64(t)}
						switch c.rng.Intn(5) {
						case 0, 1: // delete
						case 2:
							rec.Target = pool[c.rng.Intn(len(pool))]
						default:
							rec.Value = oids[c.rng.Intn(3)]
						}
						rs = append(rs, rec)
					}
					o.multi = append(o.multi, rs)
				}
			default:
				o.kind = "A"
				o.auto = c.rng.Intn(3) == 0
				ui := st.NextUpdateIndex()
				nr := c.rng.Intn(4)
				if wide {
					nr = c.rng.Intn(28)
				}
				if which == "c12" {
					nr = 1 + c.rng.Intn(3)
				}
				pick := map[string]bool{}
				for k := 0; k < nr; k++ {
					pick[pool[c.rng.Intn(len(pool))]] = true
				}
				var nm []string
				for k := range pick {
					nm = append(nm, k)
				}
				sort.Strings(nm)
				for _, k := range nm {
					rec := reftable.RefRecord{RefName: k, UpdateIndex: ui}
					switch c.rng.Intn(6) {
					case 0, 1: // delete
					case 2:
						rec.Target = pool[c.rng.Intn(len(pool))]
					case 3:
						rec.Value = oids[c.rng.Intn(3)]
						rec.TargetValue = oids[c.rng.Intn(3)]
					default:
						rec.Value = oids[c.rng.Intn(3)]
					}
					o.refs = append(o.refs, rec)
				}
				if which != "c12" {
					type lk struct {
						n string
						u uint64
					}
					set := map[lk]bool{}
					nl := c.rng.Intn(4)
					if wide {
						nl = c.rng.Intn(14)
					}
					for k := 0; k < nl; k++ {
						u := ui
						nm := pool[c.rng.Intn(len(pool))]
						if c.rng.Intn(9) == 0 {
							// the writer does not tie a reflog entry's update index to the table's limits:
							// an entry beyond every table's range (expiry windows must still judge it by its own index)
							u = ui + 1 + uint64(c.rng.Intn(4))
						} else if c.rng.Intn(3) == 0 && ui > 1 {
							u = 1 + uint64(c.rng.Intn(int(ui)))
							// mostly aim at a log entry that exists (so that the record written is its tombstone)
							if len(liveLogs) > 0 && c.rng.Intn(4) > 0 {
								e := liveLogs[c.rng.Intn(len(liveLogs))]
								nm, u = e.n, e.u
							}
						}
						set[lk{nm, u}] = true
					}
					var ks []lk
					for k := range set {
						ks = append(ks, k)
					}
					sort.Slice(ks, func(a, b int) bool {
						return logKey(&reftable.LogRecord{RefName: ks[a].n, UpdateIndex: ks[a].u}) < logKey(&reftable.LogRecord{RefName: ks[b].n, UpdateIndex: ks[b].u})
					})
					for _, k := range ks {
						l := reftable.LogRecord{RefName: k.n, UpdateIndex: k.u}
						if k.u >= ui || c.rng.Intn(3) == 0 { // else: deletion of an older entry
							liveLogs = append(liveLogs, lkey{k.n, k.u})
							l.New = oids[c.rng.Intn(3)]
							if c.rng.Intn(2) == 0 {
								l.Old = oids[c.rng.Intn(3)]
							}
							l.Name = "n"
							l.Email = "e"
							l.Time = uint64(1000 + c.rng.Intn(10))
							l.Message = []string{"m", "msg\n", " sp ", "x\n\n", "cr\r\n", "cr\r", "t\t\n"}[c.rng.Intn(7)]
						}
						o.logs = append(o.logs, l)
					}
				}
			}
			// a bottom prefix that cancels out: create some refs, delete them again (no reflog), something on
			// top, then compact the two bottom tables into nothing while a table sits above them
			if cancelPrefix && j < 4 && ntab == j && (j < 3 || ntab == 3) {
				ui := st.NextUpdateIndex()
				switch j {
				case 0, 1:
					o = hop{kind: "A"}
					for k, nm := range cancelNames {
						rec := reftable.RefRecord{RefName: nm, UpdateIndex: ui}
						if j == 0 {
							rec.Value = oids[k%3]
						}
						o.refs = append(o.refs, rec)
					}
				case 2:
					if o.kind != "A" || len(o.refs)+len(o.logs) == 0 {
						o = hop{kind: "A", refs: []reftable.RefRecord{{RefName: pool[0], UpdateIndex: ui, Value: oids[0]}}}
					}
					o.auto = false
				case 3:
					o = hop{kind: "C", first: 0, last: 1}
				}
			}
			ops = append(ops, o.String())
			status := "ok"
			func() {
				defer func() {
					if r := recover(); r != nil {
						status = "panic"
					}
				}()
				switch o.kind {
				case "A":
					reftable.VerifSetAutoCompact(st, o.auto)
					ui := st.NextUpdateIndex()
					err := st.Add(func(w *reftable.Writer) error {
						w.SetLimits(ui, ui)
						for k := range o.refs {
							r := o.refs[k]
							if err := w.AddRef(&r); err != nil {
								return err
							}
						}
						for k := range o.logs {
							l := o.logs[k]
							if err := w.AddLog(&l); err != nil {
								return err
							}
						}
						return nil
					})
					if err != nil {
						if strings.Contains(err.Error(), "existing ref") || strings.Contains(err.Error(), "invalid name") {
							status = "rejected"
						} else {
							status = "err"
						}
					}
				case "M":
					ui := st.NextUpdateIndex()
					tr, err := st.NewAddition()
					if err == nil {
						for t := range o.multi {
							rs := o.multi[t]
							u := ui + uint64(t)
							err = tr.Add(func(w *reftable.Writer) error {
								w.SetLimits(u, u)
								for k := range rs {
									r := rs[k]
									if err := w.AddRef(&r); err != nil {
										return err
									}
								}
								return nil
							})
							if err != nil {
								break
							}
						}
						if err == nil {
							err = tr.Commit()
						}
						tr.Close()
					}
					if err != nil {
						if strings.Contains(err.Error(), "existing ref") || strings.Contains(err.Error(), "invalid name") {
							status = "rejected"
						} else {
							status = "err"
						}
					}
				case "C":
					reftable.VerifReload(stc)
					ok, err := reftable.VerifCompactRange(stc, o.first, o.last, nil)
					if err != nil || !ok {
						status = "err"
					}
				case "CA":
					reftable.VerifReload(stc)
					if err := stc.CompactAll(nil); err != nil {
						status = "err"
					}
				case "CE":
					reftable.VerifReload(stc)
					e := o.exp
					if err := stc.CompactAll(&e); err != nil {
						status = "err"
					}
				}
				if stc != st {
					reftable.VerifReload(st)
				}
			}()
			hist[o.kind+":"+status]++
			obs = append(obs, observe(st, dir, status))
			// every table file the stack code produced (Add, compaction) is judged by the spec decoder
			for _, n := range readList(dir) {
				if !seenTab[n] && which != "c15" && which != "c16" {
					seenTab[n] = true
					if data, err := ioutil.ReadFile(filepath.Join(dir, n)); err == nil {
						c.emit("wellformed", hx(data)+"|"+fmt.Sprint(b2i(!cfg.Unaligned)), "ok")
						hist["wellformed-files"]++
					}
				}
			}
			if status == "panic" {
				break
			}
		}
		if which == "c15" {
			// the C implementation opens the directory the Go stack wrote and scans it
			cview := ctwinDrv.ask(fmt.Sprintf("SR %s %d", dir, b2i(cfg.SHA256)))
			st.Close()
			// then a C handle with options of its own (block size, padding, message option, object index)
			// compacts the whole directory: whatever it answers, the directory must still hold the same
			// refs and reflog, for the C reader and for a fresh Go handle
			cc := cfg
			cc.BlockSize = []uint32{0, 128, 160, 256, 1024, cfg.BlockSize}[c.rng.Intn(6)]
			cc.Unaligned = c.rng.Intn(4) == 0
			cc.Exact = c.rng.Intn(2) == 0
			cc.SkipIdx = c.rng.Intn(3) == 0
			ccStatus := "cc=ok"
			if ans := strings.Split(ctwinDrv.ask(fmt.Sprintf("SC %s %s", dir, cc)), "#"); len(ans) != 3 {
				ccStatus = "cc=no-answer(" + strings.Join(ans, "#") + ")"
			} else if ans[0] != cview {
				ccStatus = "cc=C-handle-with-other-options-reads-another-view"
			} else if ans[2] != cview {
				ccStatus = fmt.Sprintf("cc=view-changed-by-C-compaction(%s,block-size=%d,exact=%v)", ans[1], cc.BlockSize, cc.Exact)
			} else if st2, err := reftable.NewStack(dir, gocfg); err != nil {
				ccStatus = "cc=Go-cannot-open-after-C-compaction"
			} else {
				o2 := strings.Split(observe(st2, dir, "ok"), "^")
				o1 := strings.Split(cview, "|")
				if len(o2) != 4 || len(o1) != 3 || o2[2] != o1[1] || o2[3] != o1[2] {
					ccStatus = fmt.Sprintf("cc=Go-reads-another-view-after-C-compaction(%s,block-size=%d,exact=%v)", ans[1], cc.BlockSize, cc.Exact)
				}
				st2.Close()
			}
			hist["c-compactions:"+strings.SplitN(ccStatus, "(", 2)[0]]++
			os.RemoveAll(dir)
			last := ""
			if len(obs) > 0 {
				last = obs[len(obs)-1]
			}
			c.emit("cstack_gc", fmt.Sprintf("%s|%d|%s", cfg, b2i(!skipNameCheck), strings.Join(ops, "!")), last+"#"+cview+"#"+ccStatus)
			continue
		}
		st.Close()
		os.RemoveAll(dir)
		c.emit("history", fmt.Sprintf("%s|%d|%s", cfg, b2i(!skipNameCheck), strings.Join(ops, "!")), strings.Join(obs, "!"))
	}
	c.stats["op_status_hist"] = hist
	return nil
}

// A fixed history (found by the proof of the byte-level stack theorem): with 64-byte blocks
// a 30-byte name fits only a block without the file header.  Table 2 deletes "a"; the
// auto-compaction after that Add drops the tombstone, the long name becomes the first record
// of the merged table and the writer refuses it.  Add must still report the committed
// transaction as a success.
func addAfterCommitRegression(c *ctx) error {
	cfg := tcfg{BlockSize: 64}
	dir := filepath.Join(c.work, "hreg0")
	os.MkdirAll(dir, 0755)
	defer os.RemoveAll(dir)
	st, err := reftable.NewStack(dir, cfg.cfg())
	if err != nil {
		return err
	}
	defer st.Close()
	ops := []hop{
		{kind: "A", refs: []reftable.RefRecord{{RefName: "a", UpdateIndex: 1, Target: "x"}, {RefName: strings.Repeat("b", 30), UpdateIndex: 1, Target: "x"}}},
		{kind: "A", auto: true, refs: []reftable.RefRecord{{RefName: "a", UpdateIndex: 2}, {RefName: strings.Repeat("c", 21), UpdateIndex: 2, Target: "x"}}},
		{kind: "C", first: 0, last: 1},
	}
	var opss, obs []string
	for _, o := range ops {
		opss = append(opss, o.String())
		status := "ok"
		switch o.kind {
		case "A":
			reftable.VerifSetAutoCompact(st, o.auto)
			o := o
			err := st.Add(func(w *reftable.Writer) error {
				w.SetLimits(o.refs[0].UpdateIndex, o.refs[0].UpdateIndex)
				for k := range o.refs {
					r := o.refs[k]
					if err := w.AddRef(&r); err != nil {
						return err
					}
				}
				return nil
			})
			if err != nil {
				status = "err"
			}
		case "C":
			if ok, err := reftable.VerifCompactRange(st, o.first, o.last, nil); err != nil || !ok {
				status = "err"
			}
		}
		obs = append(obs, observe(st, dir, status))
	}
	c.emit("history", fmt.Sprintf("%s|%d|%s", cfg, 1, strings.Join(opss, "!")), strings.Join(obs, "!"))
	return nil
}
