package main

// Oracle pipe for the extracted model: the very zlib the implementation
// calls.  "D <hex>" -> "<hex>" (deflate, level 9);  "I <hex>" -> "O <consumed>
// <hex>" | "T" (truncated stream) | "B" (any other error).

import (
	"bufio"
	"bytes"
	"compress/zlib"
	"encoding/hex"
	"fmt"
	"io"
	"os"
	"strings"
)

func serveZlib() {
	in := bufio.NewReaderSize(os.Stdin, 1<<26)
	out := bufio.NewWriter(os.Stdout)
	for {
		line, err := in.ReadString('\n')
		if err != nil {
			return
		}
		line = strings.TrimRight(line, "\n")
		if len(line) < 2 {
			fmt.Fprintln(out, "B")
			out.Flush()
			continue
		}
		data, _ := hex.DecodeString(line[2:])
		switch line[0] {
		case 'D':
			var c bytes.Buffer
			zw, _ := zlib.NewWriterLevel(&c, 9)
			zw.Write(data)
			zw.Close()
			fmt.Fprintln(out, hex.EncodeToString(c.Bytes()))
		case 'I':
			buf := bytes.NewBuffer(data)
			before := buf.Len()
			var o bytes.Buffer
			r, err := zlib.NewReader(buf)
			if err == nil {
				_, err = io.Copy(&o, r)
			}
			switch {
			case err == nil:
				fmt.Fprintf(out, "O %d %s\n", before-buf.Len(), hex.EncodeToString(o.Bytes()))
			case err == io.ErrUnexpectedEOF:
				fmt.Fprintln(out, "T")
			default:
				fmt.Fprintln(out, "B")
			}
		default:
			fmt.Fprintln(out, "B")
		}
		out.Flush()
	}
}
