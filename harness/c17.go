package main

import (
	"bytes"
	"fmt"
	"io/ioutil"
	"math"
	"os"
	"path/filepath"
	"strconv"
	"strings"

	"github.com/google/reftable"
)

func init() { props["c17"] = runC17 }

func u64s(v []uint64) string {
	s := make([]string, len(v))
	for i, x := range v {
		s[i] = strconv.FormatUint(x, 10)
	}
	return strings.Join(s, ",")
}

func implSuggest(v []uint64) string {
	ok, s, e := reftable.VerifSuggest(v)
	if !ok {
		return "none"
	}
	return fmt.Sprintf("%d %d", s, e)
}

func readList(dir string) []string {
	c, err := ioutil.ReadFile(filepath.Join(dir, "tables.list"))
	if err != nil {
		return nil
	}
	var r []string
	for _, l := range strings.Split(string(c), "\n") {
		if l != "" {
			r = append(r, l)
		}
	}
	return r
}

// one workload shape for the single-writer runs
type wshape struct {
	name      string
	refsPerTx int
	logsPerTx int
	nameLen   int
	fresh     bool // fresh names every transaction vs. rewriting the same names
	symref    bool
	blockSize uint32
	sha256    bool
	// delShort: every transaction also deletes the short ref "a".  With 64-byte blocks the
	// long name then fits only a block without the file header; once a compaction at the
	// bottom of the stack drops the tombstone, the long name would open the merged table and
	// the writer refuses it: no compaction ever succeeds (recorded finding C17-uncompactable)
	delShort bool
	maxN     int
	// sameOid: every ref points at one object id, so the merged tables' object index has one
	// record whose position list outgrows a block (the writer then drops the positions)
	sameOid bool
}

func runC17(c *ctx) error {
	// 1. log2 at every boundary
	for k := 0; k < 64; k++ {
		p := uint64(1) << uint(k)
		for _, x := range []uint64{p - 1, p, p + 1} {
			c.emit("log2", strconv.FormatUint(x, 10), strconv.Itoa(reftable.VerifLog2(x)))
		}
	}
	c.emit("log2", strconv.FormatUint(math.MaxUint64, 10), strconv.Itoa(reftable.VerifLog2(math.MaxUint64)))

	// 2. exhaustive size vectors over 4 classes x 3 in-class positions
	vals := []uint64{2, 3, 4, 5, 7, 8, 9, 15, 64, 65, 127, 1}
	maxLen := 4
	if c.thorough() {
		maxLen = 6
	}
	exh := 0
	var rec func(v []uint64)
	rec = func(v []uint64) {
		c.emit("suggest", u64s(v), implSuggest(v))
		exh++
		if len(v) == maxLen {
			return
		}
		for _, x := range vals {
			rec(append(v, x))
		}
	}
	rec(nil)
	c.stats["exhaustive_vectors"] = exh
	c.stats["exhaustive_max_len"] = maxLen

	// 3. random longer vectors, mostly descending geometric stacks with noise
	nr := 3000
	if c.thorough() {
		nr = 200000
	}
	lens := map[int]int{}
	for i := 0; i < nr; i++ {
		n := 1 + c.rng.Intn(24)
		v := make([]uint64, n)
		mode := c.rng.Intn(4)
		for j := range v {
			switch mode {
			case 0: // arbitrary classes
				v[j] = 1 + uint64(c.rng.Int63n(1<<uint(1+c.rng.Intn(40))))
			case 1: // descending powers with jitter (what a real stack looks like)
				e := n - j + c.rng.Intn(2)
				v[j] = (uint64(1) << uint(e)) + uint64(c.rng.Intn(1<<uint(e)))
			case 2: // few classes, many collisions
				v[j] = uint64(1) << uint(c.rng.Intn(4))
				v[j] += uint64(c.rng.Intn(int(v[j])))
			default: // huge values near the uint64 limit
				v[j] = uint64(1)<<62 + uint64(c.rng.Int63n(1<<61))
				if c.rng.Intn(3) == 0 {
					v[j] = 1 + uint64(c.rng.Intn(100))
				}
			}
		}
		if mode == 3 && n > 3 {
			v = v[:3] // keep the sum below 2^64 (the model does not wrap)
			n = 3
		}
		lens[n]++
		c.emit("suggest", u64s(v), implSuggest(v))
	}
	c.stats["random_vectors"] = nr
	c.stats["random_len_hist"] = lens

	// 4. single-writer workloads on a real stack
	return c17Workloads(c)
}

func c17Workloads(c *ctx) error {
	shapes := []wshape{
		{name: "1ref-fresh", refsPerTx: 1, nameLen: 12, fresh: true},
		{name: "3ref+log-fresh", refsPerTx: 3, logsPerTx: 3, nameLen: 20, fresh: true},
		{name: "5ref-rewrite", refsPerTx: 5, nameLen: 16, fresh: false},
		{name: "2ref-sym-b256", refsPerTx: 2, nameLen: 30, fresh: true, symref: true, blockSize: 256},
		{name: "4ref-sha256", refsPerTx: 4, logsPerTx: 1, nameLen: 10, fresh: true, sha256: true},
		{name: "10ref-short", refsPerTx: 10, nameLen: 5, fresh: true},
		{name: "1ref-name100", refsPerTx: 1, nameLen: 88, fresh: true},
		{name: "1ref-sameoid-b128", refsPerTx: 1, nameLen: 40, fresh: true, blockSize: 128, sameOid: true},
		{name: "uncompactable-b64", refsPerTx: 1, nameLen: 17, fresh: true, symref: true, blockSize: 64, delShort: true, maxN: 12},
	}
	N := 150
	if c.thorough() {
		N = 1500
	}
	var summary []map[string]interface{}
	for si, sh := range shapes {
		for _, mode := range []string{"split", "public"} {
			if sh.delShort && mode == "split" {
				continue // the explicit AutoCompact of the split mode reports the writer's refusal as an error
			}
			N := N
			if sh.maxN > 0 && N > sh.maxN {
				N = sh.maxN
			}
			dir := filepath.Join(c.work, fmt.Sprintf("w%d-%s", si, mode))
			os.MkdirAll(dir, 0755)
			cfg := reftable.Config{BlockSize: sh.blockSize}
			hs := 20
			if sh.sha256 {
				cfg.HashID = reftable.SHA256ID
				hs = 32
			}
			st, err := reftable.NewStack(dir, cfg)
			if err != nil {
				return fmt.Errorf("NewStack: %v", err)
			}
			if mode == "split" {
				reftable.VerifSetAutoCompact(st, false)
			}
			maxDepth, fBelowMax, fAboveSum, compactions := 0, 0, 0, 0
			worstSlack := -1000.0
			entriesPerTx := sh.refsPerTx + sh.logsPerTx
			for i := 0; i < N; i++ {
				ui := st.NextUpdateIndex()
				err := st.Add(func(w *reftable.Writer) error {
					w.SetLimits(ui, ui)
					// names ascending within the transaction
					if sh.delShort {
						if err := w.AddRef(&reftable.RefRecord{RefName: "a", UpdateIndex: ui}); err != nil {
							return err
						}
					}
					for r := 0; r < sh.refsPerTx; r++ {
						var nm string
						if sh.fresh {
							nm = fmt.Sprintf("refs/heads/%0*d-%d", sh.nameLen, i, r)
						} else {
							nm = fmt.Sprintf("refs/heads/%0*d-%d", sh.nameLen, 0, r)
						}
						rec := reftable.RefRecord{RefName: nm, UpdateIndex: ui}
						if sh.symref {
							rec.Target = "refs/heads/master"
						} else {
							h := make([]byte, hs)
							c.rng.Read(h)
							if sh.sameOid {
								h = bytes.Repeat([]byte{0x5a}, hs)
							}
							rec.Value = h
						}
						if err := w.AddRef(&rec); err != nil {
							return err
						}
					}
					for r := 0; r < sh.logsPerTx; r++ {
						nm := fmt.Sprintf("refs/heads/%0*d-%d", sh.nameLen, i, r)
						if !sh.fresh {
							nm = fmt.Sprintf("refs/heads/%0*d-%d", sh.nameLen, 0, r)
						}
						h := make([]byte, hs)
						c.rng.Read(h)
						l := reftable.LogRecord{RefName: nm, UpdateIndex: ui, New: h, Old: make([]byte, hs),
							Name: "n", Email: "e", Time: uint64(1000 + i), Message: "m"}
						if err := w.AddLog(&l); err != nil {
							return err
						}
					}
					return nil
				})
				if err != nil {
					return fmt.Errorf("workload %s tx %d: Add: %v", sh.name, i, err)
				}
				if mode == "split" {
					// trace-level tie: the sizes the chooser sees, and what AutoCompact then does
					sizes := reftable.VerifTableSizes(st)
					before := reftable.VerifTableNames(st)
					if err := st.AutoCompact(); err != nil {
						// a compaction the chooser asked for cannot be carried out: the bound is lost from here on
						c.emit("depthcost", fmt.Sprintf("%s/%s n=%d depth=%d autocompact-error=%q", sh.name, mode, i+1, len(before), err.Error()), "compaction-failed")
						break
					}
					after := reftable.VerifTableNames(st)
					after2 := readList(dir)
					// observable: (number of tables before, after, first index of the replaced range)
					first := 0
					for first < len(before) && first < len(after) && before[first] == after[first] {
						first++
					}
					obs := fmt.Sprintf("%d %d %d", len(before), len(after), first)
					if len(after) == len(before) {
						obs = fmt.Sprintf("%d %d -", len(before), len(after))
					}
					if strings.Join(after, ",") != strings.Join(after2, ",") {
						obs += " list-differs-from-handle"
					}
					c.emit("autocompact", u64s(sizes), obs)
					if len(after) < len(before) {
						compactions++
						newSizes := reftable.VerifTableSizes(st)
						f := newSizes[first]
						removed := len(before) - len(after) + 1
						var mx, sum uint64
						for _, x := range sizes[first : first+removed] {
							if x > mx {
								mx = x
							}
							sum += x
						}
						if f < mx {
							fBelowMax++
						}
						if f > sum {
							fAboveSum++
						}
					}
				}
				depth := len(readList(dir))
				if depth > maxDepth {
					maxDepth = depth
				}
				n := i + 1
				if n >= 2 {
					slack := float64(depth) - 2*math.Log2(float64(n))
					if slack > worstSlack {
						worstSlack = slack
					}
					bound := 2 * math.Log2(float64(n))
					verdict := "ok"
					if float64(depth) > bound+1e-9 {
						verdict = "too-deep"
					}
					cost := st.Stats.EntriesWritten
					cbound := float64(n) * math.Log2(float64(n)) * float64(entriesPerTx)
					if float64(cost) > cbound+1e-9 {
						verdict = "too-costly"
					}
					if verdict != "ok" || n == N || n%50 == 0 {
						c.emit("depthcost", fmt.Sprintf("%s/%s n=%d depth=%d cost=%d perTx=%d", sh.name, mode, n, depth, cost, entriesPerTx), verdict)
					}
				}
			}
			st.Close()
			summary = append(summary, map[string]interface{}{
				"shape": sh.name, "mode": mode, "N": N, "max_depth": maxDepth,
				"worst_depth_minus_2log2N": worstSlack, "entries_written": st.Stats.EntriesWritten,
				"compactions": compactions, "f_below_max_input": fBelowMax, "f_above_sum_inputs": fAboveSum,
			})
			os.RemoveAll(dir)
		}
	}
	c.stats["workloads"] = summary
	return c17Synth(c)
}

// AutoCompact on stacks of arbitrary shape: tables of chosen record counts are
// added with auto-compaction off (so any size vector can arise, not only the
// ones a single writer's own history produces), then AutoCompact runs once and
// what it did is compared with the model's decision on the sizes it saw.
func c17Synth(c *ctx) error {
	n := 250
	if c.thorough() {
		n = 4000
	}
	counts := []int{1, 2, 3, 5, 8, 12, 20, 33, 60, 110}
	shapes := map[string]int{}
	for i := 0; i < n; i++ {
		dir := filepath.Join(c.work, fmt.Sprintf("syn%d", i))
		os.MkdirAll(dir, 0755)
		cfg := reftable.Config{}
		switch c.rng.Intn(3) {
		case 0:
			cfg.BlockSize = 512
			cfg.Unaligned = true
		case 1:
			cfg.Unaligned = true
		}
		st, err := reftable.NewStack(dir, cfg)
		if err != nil {
			return err
		}
		reftable.VerifSetAutoCompact(st, false)
		nt := 2 + c.rng.Intn(7)
		mode := c.rng.Intn(4)
		base := c.rng.Intn(len(counts))
		for j := 0; j < nt; j++ {
			var k int
			switch mode {
			case 0: // arbitrary
				k = counts[c.rng.Intn(len(counts))]
			case 1: // descending with collisions lower down (a balanced top over an unbalanced bottom)
				idx := len(counts) - 1 - j/2
				if idx < 0 {
					idx = 0
				}
				k = counts[idx]
			case 2: // few classes
				k = counts[(base+c.rng.Intn(2))%len(counts)]
			default: // equal pair low in the stack, distinct classes above it
				idx := len(counts) - 1 - j
				if j < 2 {
					idx = len(counts) - 2
				}
				if idx < 0 {
					idx = 0
				}
				k = counts[idx]
			}
			ui := st.NextUpdateIndex()
			err := st.Add(func(w *reftable.Writer) error {
				w.SetLimits(ui, ui)
				for r := 0; r < k; r++ {
					h := make([]byte, 20)
					c.rng.Read(h)
					rec := reftable.RefRecord{RefName: fmt.Sprintf("refs/heads/%03d-%04d", j, r), UpdateIndex: ui, Value: h}
					if err := w.AddRef(&rec); err != nil {
						return err
					}
				}
				return nil
			})
			if err != nil {
				return fmt.Errorf("synth add: %v", err)
			}
		}
		sizes := reftable.VerifTableSizes(st)
		before := reftable.VerifTableNames(st)
		if err := st.AutoCompact(); err != nil {
			return fmt.Errorf("AutoCompact: %v", err)
		}
		after := reftable.VerifTableNames(st)
		first := 0
		for first < len(before) && first < len(after) && before[first] == after[first] {
			first++
		}
		obs := fmt.Sprintf("%d %d %d", len(before), len(after), first)
		if len(after) == len(before) {
			obs = fmt.Sprintf("%d %d -", len(before), len(after))
			shapes["no-compaction"]++
		} else if first+1 == len(after) {
			shapes["compacted-top"]++
		} else {
			shapes["compacted-below-top"]++
		}
		if strings.Join(after, ",") != strings.Join(readList(dir), ",") {
			obs += " list-differs-from-handle"
		}
		c.emit("autocompact", u64s(sizes), obs)
		st.Close()
		os.RemoveAll(dir)
	}
	c.stats["synthetic_stacks"] = n
	c.stats["synthetic_outcomes"] = shapes
	return nil
}
