package main

// Deterministic scheduler for the stack code (DESIGN.md 3.3).  Every handle's
// script runs in its own goroutine; the file-system shim (verif_vfs.go in the
// scratch copy of the package) calls e.hook before each fs operation, which
// parks the goroutine until the scheduler releases it.  Exactly one goroutine
// runs at a time, so the trace of operations is a total order.  Calls hit a
// real temp directory: POSIX behaviour is the kernel's.

import (
	"encoding/binary"
	"fmt"
	"io/ioutil"
	"os"
	"path/filepath"
	"sort"
	"strings"
	"time"

	"github.com/google/reftable"
)

type sop struct {
	kind  string // open add addempty addbad compactall expire close read clean addmulti compact commitempty
	tx    int    // transaction id for add
	auto  bool
	same  bool // addmulti: the second table claims the same update index as the first (must be refused)
	first int  // compact: range
	last  int
}

func (o sop) String() string {
	switch o.kind {
	case "commitempty":
		// NewAddition / Add(nothing) / Commit WITHOUT Close: for the protocol it is an empty Add
		return "addempty"
	case "add":
		return fmt.Sprintf("%s(%d,%d)", o.kind, o.tx, b2i(o.auto))
	case "addmulti":
		return fmt.Sprintf("%s(%d,%d)", o.kind, o.tx, b2i(o.same))
	case "compact":
		return fmt.Sprintf("compact(%d,%d)", o.first, o.last)
	}
	return o.kind
}

type shandle struct {
	id       int
	st       *reftable.Stack
	resume   chan bool
	script   []sop
	crashed  bool
	aborting bool
	done     bool
	pending  [3]string
	npending bool
}

type sexec struct {
	dir       string
	foreign0  bool // handle 0 uses the other hash id
	cfg       reftable.Config
	handles   []*shandle
	cur       *shandle
	back      chan int
	events    []string
	steps     int
	fsSteps   int
	clock     time.Time
	clockStep time.Duration
	names     map[string]int // table file name -> canonical id
	tmps      map[string]int
	tabInfo   map[string]string // cached decoded table content
	tabHash   map[string]reftable.HashID
	commits   []int             // tx ids in commit order (from the list-rename events)
	lastTx    map[int]int       // handle -> tx being added
	viol      []string
	snapshots bool
	perStep   func(e *sexec) // invariant checks after every fs step
}

// canonical path class
func (e *sexec) canon(p string) string {
	b := filepath.Base(p)
	switch {
	case b == "tables.list":
		return "L"
	case b == "tables.list.lock":
		return "LL"
	case strings.HasSuffix(b, ".ref.lock"):
		return fmt.Sprintf("TL%d", e.tabID(strings.TrimSuffix(b, ".lock")))
	case strings.HasSuffix(b, ".ref"):
		return fmt.Sprintf("T%d", e.tabID(b))
	case strings.HasSuffix(b, ".reftmp"):
		id, ok := e.tmps[b]
		if !ok {
			id = len(e.tmps)
			e.tmps[b] = id
		}
		return fmt.Sprintf("TMP%d", id)
	case p == e.dir:
		return "DIR"
	}
	return "X:" + b
}

func (e *sexec) tabID(name string) int {
	id, ok := e.names[name]
	if !ok {
		id = len(e.names)
		e.names[name] = id
	}
	return id
}

func errClass(err error) string {
	switch {
	case err == nil:
		return "ok"
	case os.IsExist(err):
		return "EEXIST"
	case os.IsNotExist(err):
		return "ENOENT"
	}
	return "EOTHER"
}

func (e *sexec) hook(op, p1, p2 string) bool {
	h := e.cur
	if h == nil {
		return true // not under the scheduler (setup code)
	}
	if h.aborting {
		return false
	}
	h.pending = [3]string{op, p1, p2}
	h.npending = true
	e.back <- 0 // yield
	ok := <-h.resume
	if !ok {
		h.aborting = true
		return false
	}
	e.cur = h
	return true
}

func (e *sexec) post(err error, detail string) {
	h := e.cur
	if h == nil || !h.npending {
		return
	}
	h.npending = false
	op, p1, p2 := h.pending[0], h.pending[1], h.pending[2]
	ev := ""
	switch op {
	case "create_temp":
		ev = fmt.Sprintf("%d:create_temp:%s:%s", h.id, e.canon(detail), errClass(err))
	case "rename":
		ev = fmt.Sprintf("%d:rename:%s>%s:%s", h.id, e.canon(p1), e.canon(p2), errClass(err))
		if err == nil && e.canon(p2) == "L" {
			// the commit point of an addition or a compaction
			if tx, ok := e.lastTx[h.id]; ok && tx >= 0 {
				e.commits = append(e.commits, tx)
				e.lastTx[h.id] = -1
			}
		}
	case "read_file":
		ev = fmt.Sprintf("%d:read_file:%s:%s:%s", h.id, e.canon(p1), errClass(err), e.listNames(detail))
	default:
		ev = fmt.Sprintf("%d:%s:%s:%s", h.id, op, e.canon(p1), errClass(err))
	}
	e.events = append(e.events, ev)
	e.fsSteps++
}

func (e *sexec) listNames(content string) string {
	var ids []string
	for _, l := range strings.Split(content, "\n") {
		if l != "" {
			ids = append(ids, fmt.Sprint(e.tabID(l)))
		}
	}
	return strings.Join(ids, ",")
}

// ---- transactions ----

func txHash(tx int, hs int) []byte {
	h := make([]byte, hs)
	binary.BigEndian.PutUint32(h, uint32(tx+1))
	h[hs-1] = 0x5a
	return h
}

func txWriter(st *reftable.Stack, tx int, hs int, second bool, bump bool) func(w *reftable.Writer) error {
	return func(w *reftable.Writer) error {
		ui := st.NextUpdateIndex()
		if bump {
			ui++
		}
		w.SetLimits(ui, ui)
		// names ascending: "shared" < "t/..."
		recs := []reftable.RefRecord{
			{RefName: "shared", UpdateIndex: ui, Value: txHash(tx, hs)},
			{RefName: fmt.Sprintf("t/%04d", tx), UpdateIndex: ui, Value: txHash(tx, hs)},
		}
		if second {
			recs = []reftable.RefRecord{{RefName: fmt.Sprintf("u/%04d", tx), UpdateIndex: ui, Value: txHash(tx, hs)}}
		}
		for i := range recs {
			if err := w.AddRef(&recs[i]); err != nil {
				return err
			}
		}
		l := reftable.LogRecord{RefName: "shared", UpdateIndex: ui, New: txHash(tx, hs), Name: "n", Email: "e", Time: uint64(1000 + tx), Message: "m"}
		if second {
			return nil
		}
		return w.AddLog(&l)
	}
}

// ---- running a handle's script ----

func (e *sexec) runHandle(h *shandle) {
	ok := <-h.resume
	if !ok {
		h.aborting = true
	}
	e.cur = h
	hcfg := e.cfg
	if e.foreign0 && h.id == 0 {
		if hcfg.HashID == reftable.SHA256ID {
			hcfg.HashID = reftable.SHA1ID
		} else {
			hcfg.HashID = reftable.SHA256ID
		}
	}
	hs := 20
	if hcfg.HashID == reftable.SHA256ID {
		hs = 32
	}
	for _, op := range h.script {
		if h.aborting {
			break
		}
		// a call boundary is a scheduling point too
		if !e.hook("call", op.String(), "") {
			break
		}
		h.npending = false
		e.events = append(e.events, fmt.Sprintf("%d:call:%s:-", h.id, op.String()))
		res := "ok"
		func() {
			defer func() {
				if r := recover(); r != nil {
					res = fmt.Sprintf("panic(%v)", r)
					if len(res) > 80 {
						res = res[:80]
					}
					res = strings.ReplaceAll(strings.ReplaceAll(res, " ", "_"), ":", "_")
				}
			}()
			switch op.kind {
			case "open":
				st, err := reftable.NewStack(e.dir, hcfg)
				if err != nil {
					res = "err"
				} else {
					h.st = st
				}
			case "add", "addempty", "addbad", "addmulti", "commitempty":
				if h.st == nil {
					res = "nostack"
					return
				}
				reftable.VerifSetAutoCompact(h.st, op.auto)
				var err error
				switch op.kind {
				case "add":
					e.lastTx[h.id] = op.tx
					err = h.st.Add(txWriter(h.st, op.tx, hs, false, false))
				case "addmulti":
					e.lastTx[h.id] = op.tx
					var tr *reftable.Addition
					tr, err = h.st.NewAddition()
					if err == nil {
						err = tr.Add(txWriter(h.st, op.tx, hs, false, false))
						if err == nil {
							err = tr.Add(txWriter(h.st, op.tx, hs, true, !op.same))
						}
						if err == nil {
							err = tr.Commit()
						}
						tr.Close()
					}
				case "addempty":
					err = h.st.Add(func(w *reftable.Writer) error { return nil })
				case "commitempty":
					// the Addition API step by step; a successful Commit releases the lock by itself
					var tr *reftable.Addition
					tr, err = h.st.NewAddition()
					if err == nil {
						err = tr.Add(func(w *reftable.Writer) error { return nil })
						if err == nil {
							err = tr.Commit()
						}
						if err != nil {
							tr.Close()
						}
					}
					if err == reftable.ErrLockFailure {
						// what Stack.Add does on a lock failure
						reftable.VerifReload(h.st)
					}
				case "addbad":
					err = h.st.Add(func(w *reftable.Writer) error { return fmt.Errorf("callback failed") })
				}
				e.lastTx[h.id] = -1
				switch {
				case err == nil:
				case err == reftable.ErrLockFailure:
					res = "lockfailure"
				case strings.Contains(err.Error(), "callback failed"):
					res = "rejected"
				default:
					res = "err"
				}
			case "compactall":
				if h.st == nil {
					res = "nostack"
					return
				}
				if err := h.st.CompactAll(nil); err != nil {
					res = "err"
				}
			case "compact":
				if h.st == nil {
					res = "nostack"
					return
				}
				if n := len(reftable.VerifTableNames(h.st)); op.last < n && op.first <= op.last {
					if _, err := reftable.VerifCompactRange(h.st, op.first, op.last, nil); err != nil {
						res = "err"
					}
				}
			case "expire":
				if h.st == nil {
					res = "nostack"
					return
				}
				if err := h.st.CompactAll(&reftable.LogExpirationConfig{Time: 1}); err != nil {
					res = "err"
				}
			case "clean":
				if h.st == nil {
					res = "nostack"
					return
				}
				if err := h.st.Clean(); err != nil {
					if err == reftable.ErrLockFailure {
						res = "lockfailure"
					} else {
						res = "err"
					}
				}
			case "close":
				if h.st != nil {
					h.st.Close()
					h.st = nil
				}
			case "read":
				if h.st == nil {
					res = "nostack"
					return
				}
				res = e.readView(h)
			}
		}()
		if h.aborting {
			break
		}
		e.events = append(e.events, fmt.Sprintf("%d:ret:%s:%s", h.id, op.String(), res))
		if h.st != nil {
			// what the handle holds after the call (C09/C10)
			names, errs := reftable.VerifProbe(h.st)
			var ids []string
			closed := 0
			for i, n := range names {
				ids = append(ids, fmt.Sprint(e.tabID(n)))
				if errs[i] != "" {
					closed++
				}
			}
			e.events = append(e.events, fmt.Sprintf("%d:mem:%s:%d", h.id, strings.Join(ids, ","), closed))
		}
	}
	h.done = true
	e.back <- 1
}

// full scan of refs through the handle's merged view: the tx ids it shows
func (e *sexec) readView(h *shandle) string {
	m := h.st.Merged()
	it, err := m.SeekRef("")
	if err != nil {
		return "readerr"
	}
	var txs []string
	shared := ""
	for {
		var r reftable.RefRecord
		ok, err := it.NextRef(&r)
		if err != nil {
			return "readerr"
		}
		if !ok {
			break
		}
		if r.RefName == "shared" {
			shared = fmt.Sprint(int(binary.BigEndian.Uint32(r.Value)) - 1)
		} else if strings.HasPrefix(r.RefName, "t/") {
			txs = append(txs, strings.TrimLeft(r.RefName[2:], "0"))
			if txs[len(txs)-1] == "" {
				txs[len(txs)-1] = "0"
			}
		}
	}
	return fmt.Sprintf("view[%s|%s]", strings.Join(txs, ","), shared)
}

// ---- the scheduler ----

// run handle h until its next (pending) operation matches `until` for the n-th time, or it is done
type directive struct {
	h     int
	until string // e.g. "open:T", "read_file:L", "create_excl:LL", "rename:LL", "remove:T", "call:add"; "" = to completion
	n     int
}

type schedule struct {
	directed []directive
	first    int
	switches map[int]bool // global step indices at which to pre-empt
	crashAt  map[int]int  // handle id -> crash before its k-th step (k counts that handle's steps)
	explicit []int        // explicit handle order (random schedules); overrides first/switches
}

func newExec(dir string, cfg reftable.Config, scripts [][]sop) *sexec {
	e := &sexec{dir: dir, cfg: cfg, back: make(chan int), names: map[string]int{}, tmps: map[string]int{},
		tabInfo: map[string]string{}, tabHash: map[string]reftable.HashID{}, lastTx: map[int]int{}, clock: time.Unix(1000000, 0)}
	for i, s := range scripts {
		e.handles = append(e.handles, &shandle{id: i, resume: make(chan bool), script: s})
	}
	return e
}

func (e *sexec) run(s schedule) {
	reftable.VerifHook = e.hook
	reftable.VerifDone = e.post
	reftable.VerifClock = func() time.Time {
		e.clock = e.clock.Add(e.clockStep)
		return e.clock
	}
	defer func() {
		reftable.VerifHook = nil
		reftable.VerifDone = nil
		reftable.VerifClock = nil
	}()
	for _, h := range e.handles {
		go e.runHandle(h)
	}
	hsteps := map[int]int{}
	alive := func(h *shandle) bool { return !h.done && !h.crashed }
	cur := s.first % len(e.handles)
	xi := 0
	di, dcount := 0, 0
	pendingOf := func(h *shandle) string {
		if !h.npending {
			return ""
		}
		op, p1 := h.pending[0], h.pending[1]
		if op == "call" {
			return "call:" + p1
		}
		if op == "create_temp" {
			return "create_temp:TMP"
		}
		return op + ":" + e.canon(p1)
	}
	for {
		n := 0
		for _, h := range e.handles {
			if alive(h) {
				n++
			}
		}
		if n == 0 {
			break
		}
		if di < len(s.directed) {
			d := s.directed[di]
			h := e.handles[d.h%len(e.handles)]
			stop := !alive(h)
			if !stop && d.until != "" && strings.HasPrefix(pendingOf(h), d.until) {
				dcount++
				if dcount >= d.n {
					stop = true
				}
			}
			if stop {
				di++
				dcount = 0
				continue
			}
			cur = h.id
		} else if s.explicit != nil && xi < len(s.explicit) {
			cur = s.explicit[xi] % len(e.handles)
			xi++
		} else if s.switches[e.steps] {
			cur = (cur + 1) % len(e.handles)
		}
		for !alive(e.handles[cur]) {
			cur = (cur + 1) % len(e.handles)
		}
		h := e.handles[cur]
		if k, ok := s.crashAt[h.id]; ok && hsteps[h.id] == k {
			h.crashed = true
			e.events = append(e.events, fmt.Sprintf("%d:crash:-:-", h.id))
			continue
		}
		e.cur = h
		before := e.fsSteps
		h.resume <- true
		<-e.back
		e.cur = nil
		hsteps[h.id]++
		e.steps++
		if e.fsSteps != before && e.perStep != nil {
			e.perStep(e)
		}
		if e.steps > 5000 {
			e.viol = append(e.viol, "too-many-steps(hang?)")
			break
		}
	}
	// unwind crashed handles (their remaining fs operations are skipped)
	for _, h := range e.handles {
		if h.crashed && !h.done {
			e.cur = h
			h.resume <- false
			<-e.back
			e.cur = nil
		}
	}
}

// ---- snapshots of the directory (read with plain os calls, outside the shim) ----

type snapshot struct {
	list    []string // table names in tables.list
	hasList bool
	files   []string // all file names
}

func (e *sexec) snap() snapshot {
	var s snapshot
	c, err := ioutil.ReadFile(filepath.Join(e.dir, "tables.list"))
	if err == nil {
		s.hasList = true
		for _, l := range strings.Split(string(c), "\n") {
			if l != "" {
				s.list = append(s.list, l)
			}
		}
	}
	ents, _ := ioutil.ReadDir(e.dir)
	for _, en := range ents {
		s.files = append(s.files, en.Name())
	}
	sort.Strings(s.files)
	return s
}

// decoded content of a table file: "min-max:tx,tx,..." or an error marker, and its hash id; cached (tables are immutable)
func (e *sexec) tableInfo(name string) (string, reftable.HashID) {
	if v, ok := e.tabInfo[name]; ok {
		return v, e.tabHash[name]
	}
	data, err := ioutil.ReadFile(filepath.Join(e.dir, name))
	if err != nil {
		return "MISSING", reftable.NullHashID
	}
	v, h := decodeTableInfo(data)
	e.tabInfo[name] = v
	e.tabHash[name] = h
	return v, h
}

func decodeTableInfo(data []byte) (res string, hid reftable.HashID) {
	defer func() {
		if r := recover(); r != nil {
			res = "CORRUPT"
		}
	}()
	rd, err := reftable.NewReader(&reftable.ByteBlockSource{Source: data}, "x")
	if err != nil {
		return "CORRUPT", reftable.NullHashID
	}
	hid = rd.HashID()
	it, err := rd.SeekRef("")
	if err != nil {
		return "CORRUPT", hid
	}
	type tu struct {
		tx int
		ui uint64
	}
	var txs []tu
	for {
		var r reftable.RefRecord
		ok, err := it.NextRef(&r)
		if err != nil {
			return "CORRUPT", hid
		}
		if !ok {
			break
		}
		if strings.HasPrefix(r.RefName, "t/") {
			var k int
			fmt.Sscanf(r.RefName[2:], "%d", &k)
			txs = append(txs, tu{k, r.UpdateIndex})
		}
	}
	sort.Slice(txs, func(i, j int) bool { return txs[i].ui < txs[j].ui })
	var s []string
	for _, t := range txs {
		s = append(s, fmt.Sprint(t.tx))
	}
	fs, hsz := 68, 24
	if hid == reftable.SHA256ID {
		fs, hsz = 72, 28
	}
	return fmt.Sprintf("%d-%d:%s:%d", rd.MinUpdateIndex(), rd.MaxUpdateIndex(), strings.Join(s, ","), len(data)-fs-(hsz-1)), hid
}

// canonical rendering of a snapshot: L=<ids>|<id>=<info>,...|files=<classes>
func (e *sexec) renderSnap(s snapshot) string {
	var ids, infos, classes []string
	// the stack's hash type is that of the first listed table; a listed table of another type is bad
	var stackHash reftable.HashID
	for i, n := range s.list {
		ids = append(ids, fmt.Sprint(e.tabID(n)))
		info, h := e.tableInfo(n)
		if i == 0 {
			stackHash = h
		} else if h != stackHash && info != "MISSING" && info != "CORRUPT" {
			info = "WRONGHASH"
		}
		infos = append(infos, fmt.Sprintf("%d=%s", e.tabID(n), info))
	}
	for _, f := range s.files {
		classes = append(classes, e.canon(filepath.Join(e.dir, f)))
	}
	sort.Strings(classes)
	l := "-"
	if s.hasList {
		l = strings.Join(ids, ",")
	}
	return fmt.Sprintf("L=%s|%s|%s", l, strings.Join(infos, ";"), strings.Join(classes, ","))
}
