package main

import (
	"fmt"
	"math/rand"
	"sort"
	"strings"

	"github.com/google/reftable"
)

func init() {
	props["c03"] = runMerged
}

// a stack of tables with increasing update-index ranges over a shared pool of names
func genStackTables(rng *rand.Rand, k int, cfg tcfg, withLogs bool) []tableCase {
	hs := cfg.hashSize()
	var pool []string
	np := 2 + rng.Intn(14)
	seen := map[string]bool{}
	for len(pool) < np {
		n := genName(rng)
		if len(n) > 60 || seen[n] {
			continue
		}
		seen[n] = true
		pool = append(pool, n)
	}
	var oids [][]byte
	for i := 0; i < 3; i++ {
		h := make([]byte, hs)
		rng.Read(h)
		oids = append(oids, h)
	}
	var ts []tableCase
	next := uint64(1 + rng.Intn(3))
	for i := 0; i < k; i++ {
		var t tableCase
		t.cfg = cfg
		t.min = next
		t.max = next + uint64(rng.Intn(3))
		next = t.max + 1 + uint64(rng.Intn(2))
		var nm []string
		for _, n := range pool {
			if rng.Intn(2) == 0 {
				nm = append(nm, n)
			}
		}
		sort.Strings(nm)
		for _, n := range nm {
			r := reftable.RefRecord{RefName: n, UpdateIndex: t.min + uint64(rng.Int63n(int64(t.max-t.min+1)))}
			switch rng.Intn(6) {
			case 0, 1: // deletion
			case 2:
				r.Target = "refs/heads/" + comps[rng.Intn(len(comps))]
			case 3:
				r.Value = oids[rng.Intn(len(oids))]
				r.TargetValue = oids[rng.Intn(len(oids))]
			default:
				r.Value = oids[rng.Intn(len(oids))]
			}
			t.refs = append(t.refs, r)
		}
		if withLogs {
			type lk struct {
				n string
				u uint64
			}
			set := map[lk]bool{}
			nl := rng.Intn(8)
			for j := 0; j < nl; j++ {
				k := lk{pool[rng.Intn(len(pool))], uint64(1 + rng.Intn(int(next)))}
				if rng.Intn(2) == 0 {
					k.u = t.min + uint64(rng.Int63n(int64(t.max-t.min+1)))
				}
				set[k] = true
			}
			var ks []lk
			for k := range set {
				ks = append(ks, k)
			}
			sort.Slice(ks, func(a, b int) bool {
				return logKey(&reftable.LogRecord{RefName: ks[a].n, UpdateIndex: ks[a].u}) < logKey(&reftable.LogRecord{RefName: ks[b].n, UpdateIndex: ks[b].u})
			})
			for _, k := range ks {
				l := reftable.LogRecord{RefName: k.n, UpdateIndex: k.u}
				if rng.Intn(4) != 0 { // else: deletion of that log entry
					l.New = oids[rng.Intn(len(oids))]
					l.Old = oids[rng.Intn(len(oids))]
					l.Name = "n"
					l.Email = "e@x"
					l.Time = uint64(1000 + rng.Intn(50))
					l.Message = fmt.Sprintf("m%d\n", rng.Intn(9))
				}
				t.logs = append(t.logs, l)
			}
		}
		ts = append(ts, t)
	}
	return ts
}

func fmtTables(ts []tableCase) string {
	s := make([]string, len(ts))
	for i, t := range ts {
		s[i] = fmt.Sprintf("%d~%d~%s~%s", t.min, t.max, fmtRefs(t.refs), fmtLogs(t.logs))
	}
	return strings.Join(s, "#")
}

func stackQueries(c *ctx, ts []tableCase, maxk int) []string {
	var names []string
	seen := map[string]bool{}
	var oids []string
	for _, t := range ts {
		for _, r := range t.refs {
			if !seen[r.RefName] {
				seen[r.RefName] = true
				names = append(names, r.RefName)
			}
			for _, h := range [][]byte{r.Value, r.TargetValue} {
				if h != nil && !seen["o"+string(h)] {
					seen["o"+string(h)] = true
					oids = append(oids, hx(h))
				}
			}
		}
	}
	qs := []string{"sr:", "sl::" + fmt.Sprint(^uint64(0))}
	c.rng.Shuffle(len(names), func(i, j int) { names[i], names[j] = names[j], names[i] })
	for i, n := range names {
		if i >= maxk {
			break
		}
		for _, k := range neighbours(n)[:3] {
			qs = append(qs, "sr:"+hxs(k))
		}
		qs = append(qs, fmt.Sprintf("sl:%s:%d", hxs(n), c.rng.Intn(12)), fmt.Sprintf("sl:%s:%d", hxs(n), ^uint64(0)))
		qs = append(qs, "rr:"+hxs(n), "rr:"+hxs(n+"\x00"), fmt.Sprintf("rl:%s:%d", hxs(n), c.rng.Intn(12)))
	}
	for _, o := range oids {
		qs = append(qs, "rf:"+o)
	}
	absent := make([]byte, ts[0].cfg.hashSize())
	c.rng.Read(absent)
	qs = append(qs, "rf:"+hx(absent))
	return qs
}

// opens every table with the real writer/reader; nil on failure
func openTables(ts []tableCase) ([]reftable.Table, string) {
	var tabs []reftable.Table
	for i := range ts {
		wres, data := writeTable(ts[i].cfg, ts[i].min, ts[i].max, ts[i].refs, ts[i].logs)
		if !strings.HasPrefix(wres, "ok:") {
			return nil, "write-" + strings.SplitN(wres, ":", 2)[0]
		}
		rd, ores := openReader(data)
		if rd == nil {
			return nil, "open-" + ores
		}
		tabs = append(tabs, rd)
	}
	return tabs, "ok"
}

func runMerged(c *ctx) error {
	n := 300
	if c.thorough() {
		n = 6000
	}
	hist := map[string]int{}
	for i := 0; i < n; i++ {
		var cfg tcfg
		cfg.SHA256 = c.rng.Intn(4) == 0
		cfg.BlockSize = uint32(200 + c.rng.Intn(400))
		if c.rng.Intn(3) == 0 {
			cfg.BlockSize = 0
		}
		cfg.Restart = c.rng.Intn(6)
		cfg.Unaligned = c.rng.Intn(5) == 0
		cfg.Exact = true
		k := 1 + c.rng.Intn(6)
		ts := genStackTables(c.rng, k, cfg, c.rng.Intn(3) > 0)
		// drop empty tables (the writer reports them as empty)
		var ts2 []tableCase
		for _, t := range ts {
			if len(t.refs)+len(t.logs) > 0 {
				ts2 = append(ts2, t)
			}
		}
		ts = ts2
		if len(ts) == 0 {
			continue
		}
		suppress := c.rng.Intn(2) == 0
		qs := stackQueries(c, ts, 4)
		args := fmt.Sprintf("%d|%s|%s|%s", b2i(suppress), cfg, fmtTables(ts), strings.Join(qs, ","))
		tabs, st := openTables(ts)
		var parts []string
		if tabs == nil {
			parts = []string{st}
		} else {
			hid := reftable.SHA1ID
			if cfg.SHA256 {
				hid = reftable.SHA256ID
			}
			m, err := reftable.NewMerged(tabs, hid)
			if err != nil {
				parts = []string{"merged-err"}
			} else {
				reftable.VerifSetSuppress(m, suppress)
				parts = []string{"ok"}
				for _, q := range qs {
					parts = append(parts, runQuery(m, q))
				}
			}
		}
		hist[fmt.Sprintf("tables=%d suppress=%v", len(ts), suppress)]++
		c.emit("merged", args, strings.Join(parts, "|"))
	}
	c.stats["shape_hist"] = hist
	return nil
}
