//go:build verif
// +build verif

// Thin exporters for unexported functions, added to a scratch COPY of the
// working tree by /verif/bin/check (never committed to the repository).
package reftable

// VerifSuggest exposes suggestCompactionSegment.
func VerifSuggest(sizes []uint64) (ok bool, start, end int) {
	seg := suggestCompactionSegment(sizes)
	if seg == nil {
		return false, 0, 0
	}
	return true, seg.start, seg.end
}

// VerifLog2 exposes log2.
func VerifLog2(sz uint64) int { return log2(sz) }

// VerifTableSizes exposes the size vector the auto-compaction looks at.
func VerifTableSizes(st *Stack) []uint64 { return st.tableSizesForCompaction() }

// VerifSetAutoCompact switches the automatic compaction after Add on or off.
func VerifSetAutoCompact(st *Stack, on bool) { st.disableAutoCompact = !on }

// VerifTableNames lists the names of the tables the handle has open.
func VerifTableNames(st *Stack) []string {
	var r []string
	for _, t := range st.stack {
		r = append(r, t.Name())
	}
	return r
}

// VerifSetSuppress sets suppressDeletions of a merged table (the stack's view sets it).
func VerifSetSuppress(m *Merged, on bool) { m.suppressDeletions = on }

// VerifCompactRange exposes compactRange (tables first..last inclusive).
func VerifCompactRange(st *Stack, first, last int, exp *LogExpirationConfig) (bool, error) {
	return st.compactRange(first, last, exp)
}

// VerifBwCap builds a block writer that already holds n restart points (and n
// entries), adds one more ref record and finishes the block: whether the record
// was accepted, the restart count afterwards, the length of the finished block
// and its last two bytes (the 16-bit restart count as stored).
func VerifBwCap(n int, interval int, key string) (ok bool, restarts int, finLen int, stored int) {
	size := 4 + 16 + 64 + 3*(n+2) + 2
	bw := &blockWriter{
		buf:             make([]byte, size),
		blockSize:       uint32(size),
		headerOff:       0,
		restartInterval: interval,
		hashSize:        20,
		next:            4 + 16,
		restarts:        make([]uint32, n),
		entries:         n,
		lastKey:         "",
	}
	bw.buf[0] = blockTypeRef
	for i := range bw.restarts {
		bw.restarts[i] = 4
	}
	ok = bw.add(&RefRecord{RefName: key})
	restarts = len(bw.restarts)
	data := bw.finish()
	return ok, restarts, len(data), int(data[len(data)-2])<<8 | int(data[len(data)-1])
}

// VerifLogSpan returns where the log blocks of a table start and end, and the size of the file header.
func VerifLogSpan(r *Reader) (present bool, start, end uint64, hdr int) {
	o := r.offsets[blockTypeLog]
	end = r.size
	if o.IndexOffset > 0 {
		end = o.IndexOffset
	}
	return o.Present, o.Offset, end, headerSize(r.version)
}

// VerifBlockStarts lists the file offsets of the data blocks of every section and of each
// section's top index block of a (valid) table, as the reader itself finds them.
func VerifBlockStarts(r *Reader) []uint64 {
	var out []uint64
	for _, typ := range []byte{blockTypeRef, blockTypeObj, blockTypeLog} {
		if !r.offsets[typ].Present {
			continue
		}
		ti, err := r.start(typ, false)
		for n := 0; err == nil && ti != nil && n < 10000; n++ {
			out = append(out, ti.blockOff)
			ok, e := ti.nextBlock()
			if e != nil || !ok {
				break
			}
		}
		if io := r.offsets[typ].IndexOffset; io > 0 {
			out = append(out, io)
		}
	}
	return out
}

// VerifReload is the reload Stack.Add performs after a lock failure.
func VerifReload(st *Stack) { st.reload(true) }
