//go:build verif
// +build verif

// Thin exporters for unexported functions, added to a scratch COPY of the
// working tree by /verif/bin/check (never committed to the repository).
package reftable

// VerifSuggest exposes suggestCompactionSegment.
func VerifSuggest(sizes []uint64) (ok bool, start, end int) {
	seg := suggestCompactionSegment(sizes)
	if seg == nil {
		return false, 0, 0
	}
	return true, seg.start, seg.end
}

// VerifLog2 exposes log2.
func VerifLog2(sz uint64) int { return log2(sz) }

// VerifTableSizes exposes the size vector the auto-compaction looks at.
func VerifTableSizes(st *Stack) []uint64 { return st.tableSizesForCompaction() }

// VerifSetAutoCompact switches the automatic compaction after Add on or off.
func VerifSetAutoCompact(st *Stack, on bool) { st.disableAutoCompact = !on }

// VerifTableNames lists the names of the tables the handle has open.
func VerifTableNames(st *Stack) []string {
	var r []string
	for _, t := range st.stack {
		r = append(r, t.Name())
	}
	return r
}

// VerifSetSuppress sets suppressDeletions of a merged table (the stack's view sets it).
func VerifSetSuppress(m *Merged, on bool) { m.suppressDeletions = on }

// VerifCompactRange exposes compactRange (tables first..last inclusive).
func VerifCompactRange(st *Stack, first, last int, exp *LogExpirationConfig) (bool, error) {
	return st.compactRange(first, last, exp)
}
