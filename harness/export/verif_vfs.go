//go:build verif
// +build verif

// File-system shim for the stack code.  /verif/bin/check rewrites, in a scratch
// COPY of the working tree, the package-level calls os.OpenFile / os.Open /
// os.Rename / os.Remove / ioutil.ReadFile / ioutil.TempFile / ioutil.ReadDir /
// time.Now of stack.go and reftable.go into the functions below (gofmt -r).
// With no hook installed they are the plain calls.
package reftable

import (
	"io/ioutil"
	"os"
	"time"
)

// VerifHook is called before every file-system operation of the stack code
// (it blocks until the scheduler lets the caller run).  If it returns false
// the operation is skipped and fails (the caller is a crashed process that is
// being unwound).
var VerifHook func(op, path, path2 string) bool

// VerifDone reports the outcome of the operation announced by VerifHook.
var VerifDone func(err error, detail string)

// VerifClock replaces time.Now in the reload loop.
var VerifClock func() time.Time

var errVerifCrashed = os.ErrClosed

func vfsPre(op, p1, p2 string) bool {
	if VerifHook == nil {
		return true
	}
	return VerifHook(op, p1, p2)
}

func vfsPost(err error, detail string) {
	if VerifDone != nil {
		VerifDone(err, detail)
	}
}

func vfsOpenFile(name string, flag int, perm os.FileMode) (*os.File, error) {
	if !vfsPre("create_excl", name, "") {
		return nil, errVerifCrashed
	}
	f, err := os.OpenFile(name, flag, perm)
	vfsPost(err, "")
	return f, err
}

func vfsOpen(name string) (*os.File, error) {
	if !vfsPre("open", name, "") {
		return nil, errVerifCrashed
	}
	f, err := os.Open(name)
	vfsPost(err, "")
	return f, err
}

func vfsRename(from, to string) error {
	if !vfsPre("rename", from, to) {
		return errVerifCrashed
	}
	err := os.Rename(from, to)
	vfsPost(err, "")
	return err
}

func vfsRemove(name string) error {
	if !vfsPre("remove", name, "") {
		return errVerifCrashed
	}
	err := os.Remove(name)
	vfsPost(err, "")
	return err
}

func vfsReadFile(name string) ([]byte, error) {
	if !vfsPre("read_file", name, "") {
		return nil, errVerifCrashed
	}
	b, err := ioutil.ReadFile(name)
	vfsPost(err, string(b))
	return b, err
}

func vfsTempFile(dir, pattern string) (*os.File, error) {
	if !vfsPre("create_temp", dir, pattern) {
		return nil, errVerifCrashed
	}
	f, err := ioutil.TempFile(dir, pattern)
	d := ""
	if f != nil {
		d = f.Name()
	}
	vfsPost(err, d)
	return f, err
}

func vfsReadDir(dir string) ([]os.FileInfo, error) {
	if !vfsPre("read_dir", dir, "") {
		return nil, errVerifCrashed
	}
	e, err := ioutil.ReadDir(dir)
	vfsPost(err, "")
	return e, err
}

func vfsNow() time.Time {
	if VerifClock != nil {
		return VerifClock()
	}
	return time.Now()
}

// VerifOpenTables reports, for every table the handle holds, whether reading
// through it still works (the reader is open): name and "" or the error.
func VerifProbe(st *Stack) (names []string, errs []string) {
	for _, r := range st.stack {
		names = append(names, r.Name())
		_, err := r.src.ReadBlock(0, 4)
		if err != nil {
			errs = append(errs, err.Error())
		} else {
			errs = append(errs, "")
		}
	}
	return
}
