package main

// Stack protocol scenarios: operation scripts for 1..4 handles, run under the
// scheduler with enumerated or seeded-random schedules and crash points.

import (
	"fmt"
	"io/ioutil"
	"os"
	"path/filepath"
	"strings"
	"time"

	"github.com/google/reftable"
)

func init() {
	for _, p := range []string{"c04", "c05", "c06", "c08", "c09", "c10", "c16"} {
		p := p
		props[p] = func(c *ctx) error { return runStack(c, p) }
	}
	// C05 also on Additions whose tables span several update indices: a later table of the same
	// Addition that starts inside the span of an earlier one must not reach tables.list
	props["c05"] = func(c *ctx) error {
		if err := runStack(c, "c05"); err != nil {
			return err
		}
		return spanAdditions(c)
	}
	// C16 also over sequential histories of real transactions (deletions, compactions whose result
	// is empty, expiry, refused transactions): the directory listing at every idle point
	props["c16"] = func(c *ctx) error {
		if err := runStack(c, "c16"); err != nil {
			return err
		}
		residueCheck = true
		return runHistories(c, "c16")
	}
}

type scenario struct {
	directed [][]directive // hand-placed interleavings for this scenario (known dangerous windows)
	name    string
	setup   []sop   // run by a setup handle (id = len(scripts)) to completion first
	scripts [][]sop // handles 0..n-1, all start with "open"
	sha256  bool
	giveUp  bool // clock advances 1 s per time.Now: reload gives up after two attempts
	// foreign0: handle 0 is configured with the OTHER hash id (a misconfigured process on the same
	// directory).  The protocol model has no hash ids: these traces are judged by the predicates only.
	foreign0 bool
	// directedOnly: only the hand-placed interleavings are run (no exploration)
	directedOnly bool
}

func fmtScripts(sc scenario) string {
	var parts []string
	all := append([][]sop{}, sc.scripts...)
	for _, s := range all {
		var o []string
		for _, x := range s {
			o = append(o, x.String())
		}
		parts = append(parts, strings.Join(o, ","))
	}
	var st []string
	for _, x := range sc.setup {
		st = append(st, x.String())
	}
	flags := fmt.Sprintf("%d,%d", b2i(sc.sha256), b2i(sc.giveUp))
	if sc.foreign0 {
		flags += ",foreign0"
	}
	return fmt.Sprintf("%s|%s|%s", flags, strings.Join(st, ","), strings.Join(parts, ";"))
}

// one execution; returns the rendered trace
func runExecution(c *ctx, sc scenario, s schedule, idx int) (string, int) {
	dir := filepath.Join(c.work, fmt.Sprintf("x%d", idx))
	os.MkdirAll(dir, 0755)
	defer os.RemoveAll(dir)
	cfg := reftable.Config{}
	if sc.sha256 {
		cfg.HashID = reftable.SHA256ID
	}
	// setup: a handle run to completion, then closed
	if len(sc.setup) > 0 {
		se := newExec(dir, cfg, [][]sop{append([]sop{{kind: "open"}}, append(sc.setup, sop{kind: "close"})...)})
		se.run(schedule{})
	}
	e := newExec(dir, cfg, sc.scripts)
	if sc.foreign0 {
		e.foreign0 = true
	}
	if sc.giveUp {
		e.clockStep = 2 * time.Second
	}
	// names of the setup tables get canonical ids first
	init := e.snap()
	for _, n := range init.list {
		e.tabID(n)
	}
	var rendered []string
	rendered = append(rendered, "@"+e.renderSnap(init))
	last := ""
	nev := 0
	isFs := func(ev string) bool {
		p := strings.SplitN(ev, ":", 3)
		switch p[1] {
		case "call", "ret", "mem", "crash":
			return false
		}
		return true
	}
	e.perStep = func(e *sexec) {
		// the snapshot goes right behind the fs event of this step
		sn := e.renderSnap(e.snap())
		for ; nev < len(e.events); nev++ {
			rendered = append(rendered, e.events[nev])
			if isFs(e.events[nev]) {
				if sn == last {
					rendered = append(rendered, "@=")
				} else {
					rendered = append(rendered, "@"+sn)
					last = sn
				}
			}
		}
	}
	e.run(s)
	for ; nev < len(e.events); nev++ {
		rendered = append(rendered, e.events[nev])
	}
	rendered = append(rendered, "@"+e.renderSnap(e.snap()))
	for _, v := range e.viol {
		rendered = append(rendered, "!"+v)
	}
	// release descriptors
	for _, h := range e.handles {
		if h.st != nil {
			func() {
				defer func() { recover() }()
				reftable.VerifHook = nil
				h.st.Close()
			}()
		}
	}
	return strings.Join(rendered, " "), e.steps
}

func fmtDirected(d []directive) string {
	var p []string
	for _, x := range d {
		p = append(p, fmt.Sprintf("%d~%s~%d", x.h, x.until, x.n))
	}
	return strings.Join(p, "+")
}

func fmtSchedule(s schedule) string {
	if s.directed != nil {
		return "directed=" + fmtDirected(s.directed)
	}
	var sw []string
	for k := range s.switches {
		sw = append(sw, fmt.Sprint(k))
	}
	sortStrings(sw)
	var cr []string
	for h, k := range s.crashAt {
		cr = append(cr, fmt.Sprintf("%d@%d", h, k))
	}
	sortStrings(cr)
	var ex []string
	for _, x := range s.explicit {
		ex = append(ex, fmt.Sprint(x))
	}
	return fmt.Sprintf("first=%d sw=%s crash=%s explicit=%s", s.first, strings.Join(sw, ","), strings.Join(cr, ","), strings.Join(ex, ","))
}

func sortStrings(s []string) {
	for i := 1; i < len(s); i++ {
		for j := i; j > 0 && s[j] < s[j-1]; j-- {
			s[j], s[j-1] = s[j-1], s[j]
		}
	}
}

func add(tx int) sop        { return sop{kind: "add", tx: tx} }
func addAuto(tx int) sop    { return sop{kind: "add", tx: tx, auto: true} }
func op(kind string) sop    { return sop{kind: kind} }
func opens(ops ...sop) []sop { return append([]sop{{kind: "open"}}, ops...) }

func stackScenarios(which string) []scenario {
	base3 := []sop{add(100), add(101), add(102)}
	var out []scenario
	// pairs of operations on two handles over a 3-table stack
	menu := map[string][]sop{
		"add":        {add(1)},
		"addauto":    {addAuto(1)},
		"compact":    {op("compactall")},
		"expire":     {op("expire")},
		"add+read":   {add(2), op("read")},
		"reload":     {add(3), op("read"), add(4)},
		"close":      {op("read"), op("close")},
		"clean":      {op("clean")},
		"addmulti":   {{kind: "addmulti", tx: 5}},
		"addempty":   {op("addempty"), op("read")},
		"addbad":     {op("addbad"), op("read")},
		"autochain":  {addAuto(6), addAuto(7)},
	}
	pairs := [][2]string{
		{"add", "add"}, {"add", "compact"}, {"compact", "compact"}, {"addauto", "addauto"},
		{"compact", "add+read"}, {"compact", "reload"}, {"add", "close"}, {"compact", "close"},
		{"add", "clean"}, {"compact", "clean"}, {"expire", "add"}, {"addmulti", "add"},
		{"addmulti", "compact"}, {"addempty", "compact"}, {"addbad", "add"}, {"autochain", "compact"},
		{"autochain", "autochain"}, {"expire", "compact"}, {"reload", "reload"},
	}
	renum := func(ops []sop, base int) []sop {
		r := make([]sop, len(ops))
		for i, o := range ops {
			r[i] = o
			if strings.HasPrefix(o.kind, "add") && o.tx > 0 {
				r[i].tx = o.tx + base
			}
		}
		return r
	}
	for _, p := range pairs {
		out = append(out, scenario{name: p[0] + "|" + p[1], setup: base3,
			scripts: [][]sop{opens(renum(menu[p[0]], 10)...), opens(renum(menu[p[1]], 20)...)}})
	}
	// empty initial stack
	out = append(out, scenario{name: "empty:add|add", scripts: [][]sop{opens(add(11)), opens(add(21))}})
	out = append(out, scenario{name: "empty:compact|add", scripts: [][]sop{opens(op("compactall"), op("clean"), op("read")), opens(add(21), op("read"))}})
	// SHA-256 and the give-up clock
	out = append(out, scenario{name: "sha256:add|compact", setup: base3, sha256: true, scripts: [][]sop{opens(add(11), op("read")), opens(op("compactall"), op("read"))}})
	out = append(out, scenario{name: "giveup:compact|reload", setup: base3, giveUp: true,
		scripts: [][]sop{opens(op("compactall")), opens(add(23), op("read"), add(24), op("read"))}})
	// stale handle histories (C09): handle 0 goes stale through handle 1
	out = append(out, scenario{name: "stale:add", setup: base3, scripts: [][]sop{opens(add(11), add(12), op("read")), opens(add(21), op("compactall"), add(22))}})
	// a stale handle holding exactly one table while the list names exactly one other table
	out = append(out, scenario{name: "stale1:compact", setup: []sop{add(100)},
		scripts: [][]sop{opens(add(11), op("read"), add(12)), opens(add(21), op("compactall"))}})
	out = append(out, scenario{name: "stale1:expire", setup: []sop{add(100)},
		scripts: [][]sop{opens(add(11), op("read")), opens(op("expire"), op("read"))}})
	out = append(out, scenario{name: "stale1:autocompact", setup: []sop{add(100)},
		scripts: [][]sop{opens(add(11), op("read")), opens(addAuto(21), addAuto(22), op("read"))}})
	// partial-range compactions: a handle that is behind closes / reloads after a LOWER range was compacted
	cmp := func(f, l int) sop { return sop{kind: "compact", first: f, last: l} }
	out = append(out, scenario{name: "low:compact|close", setup: base3,
		scripts: [][]sop{opens(op("read"), op("close")), opens(cmp(0, 1), op("read"))}})
	out = append(out, scenario{name: "low:compact|add", setup: base3,
		scripts: [][]sop{opens(add(11), op("read")), opens(cmp(0, 1), add(21), op("read"))}})
	out = append(out, scenario{name: "low:compact|compact-high", setup: append(base3, add(103)),
		scripts: [][]sop{opens(cmp(0, 1), op("read")), opens(cmp(2, 3), op("read"))}})
	// overlapping compactions: one holds the table locks of a middle range while the other walks up from the bottom
	out = append(out, scenario{name: "overlap:compact-mid|compactall", setup: append(base3, add(103)),
		scripts: [][]sop{opens(cmp(1, 2), op("read")), opens(op("compactall"), op("read"))}})
	// a reader that is behind by a lower compaction reloads while the tables on top are compacted away
	out = append(out, scenario{name: "behind:reload-vs-high-compact", setup: base3,
		scripts: [][]sop{opens(add(11), op("read"), add(12), op("read")), opens(cmp(0, 1), add(21), add(22)), opens(cmp(2, 3), op("read"))},
		directed: [][]directive{
			{{0, "call:add", 1}, {1, "", 0}, {2, "call:compact", 1}, {0, "open:T", 1}, {2, "", 0}, {0, "", 0}},
			{{0, "call:add", 1}, {1, "", 0}, {2, "call:compact", 1}, {0, "open:T", 2}, {2, "", 0}, {0, "", 0}},
			{{0, "call:add", 1}, {1, "", 0}, {2, "call:compact", 1}, {0, "read_file:L", 2}, {2, "", 0}, {0, "", 0}},
			{{0, "call:add", 1}, {1, "", 0}, {2, "call:compact", 1}, {0, "read_file:L", 3}, {2, "rename:LL", 1}, {0, "", 0}, {2, "", 0}},
		}})
	// Clean walks a directory listing while a compactor is still unlinking the tables it replaced
	out = append(out, scenario{name: "clean-vs-compact-unlink", setup: base3,
		scripts: [][]sop{opens(op("compactall")), opens(op("clean"), op("read"))},
		directed: [][]directive{
			{{0, "remove:T", 1}, {1, "open:T", 3}, {0, "", 0}, {1, "", 0}},
			{{0, "remove:T", 2}, {1, "open:T", 2}, {0, "", 0}, {1, "", 0}},
		}})
	// a process configured with the wrong hash id on the same directory: whatever it does, tables.list
	// must keep naming only tables of the stack's hash type, and its Adds must not commit
	out = append(out, scenario{name: "foreign-hash:add-add|add", foreign0: true,
		scripts: [][]sop{opens(add(11), add(12), op("read")), opens(add(21), op("read"), add(22), op("read"))},
		directed: [][]directive{
			// the misconfigured handle opens the still empty directory, the regular one commits first
			{{0, "call:add", 1}, {1, "call:read", 1}, {0, "", 0}, {1, "", 0}},
			{{0, "call:add", 1}, {1, "call:read", 1}, {0, "call:add", 2}, {1, "", 0}, {0, "", 0}},
			{{0, "call:add", 1}, {1, "", 0}, {0, "", 0}},
		}})
	// the Addition API step by step: Commit of an Addition without tables must release the lock itself
	out = append(out, scenario{name: "commitempty|add", setup: base3,
		scripts: [][]sop{opens(op("commitempty"), op("read")), opens(add(21), op("read"))}})
	// a multi-table Addition whose second table claims an update index the first already used: must be refused
	out = append(out, scenario{name: "addmulti-same|add", setup: base3,
		scripts: [][]sop{opens(sop{kind: "addmulti", tx: 15, same: true}, op("read")), opens(add(21), op("read"))}})
	// three handles
	out = append(out, scenario{name: "3:add|compact|add", setup: base3,
		scripts: [][]sop{opens(add(11)), opens(op("compactall")), opens(add(31), op("read"))}})
	out = append(out, scenario{name: "3:compact|compact|reload", setup: append(base3, add(103), add(104)),
		scripts: [][]sop{opens(op("compactall")), opens(op("compactall")), opens(add(31), op("read"), add(32))}})
	return out
}

// C09's last clause: a retried Add uses "an update index greater than every committed one".
// A compaction that drops the last tombstones empties tables.list; what index comes next?
func indexRestartProbe(c *ctx) error {
	dir := filepath.Join(c.work, "idxrestart")
	os.MkdirAll(dir, 0755)
	defer os.RemoveAll(dir)
	st, err := reftable.NewStack(dir, reftable.Config{})
	if err != nil {
		return err
	}
	defer st.Close()
	reftable.VerifSetAutoCompact(st, false)
	add := func(del bool) error {
		ui := st.NextUpdateIndex()
		return st.Add(func(w *reftable.Writer) error {
			w.SetLimits(ui, ui)
			r := reftable.RefRecord{RefName: "refs/heads/a", UpdateIndex: ui}
			if !del {
				r.Value = make([]byte, 20)
			}
			return w.AddRef(&r)
		})
	}
	if err := add(false); err != nil {
		return err
	}
	if err := add(true); err != nil {
		return err
	}
	maxCommitted := st.NextUpdateIndex() - 1
	if err := st.CompactAll(nil); err != nil {
		return err
	}
	c.emit("idxrestart", "add,delete,compactall", fmt.Sprintf("committed<=%d next=%d tables=%d", maxCommitted, st.NextUpdateIndex(), len(reftable.VerifTableNames(st))))
	return nil
}

func runStack(c *ctx, which string) error {
	if which == "c09" {
		if err := indexRestartProbe(c); err != nil {
			return err
		}
	}
	scs := stackScenarios(which)
	maxPre := 1
	nrand := 6
	if c.thorough() {
		maxPre = 2
		nrand = 60
	}
	budget := 12000
	if c.thorough() {
		budget = 150000
	}
	idx := 0
	hist := map[string]int{}
	emit := func(sc scenario, s schedule) int {
		tr, steps := runExecution(c, sc, s, idx)
		idx++
		c.emit("stackrun", fmtScripts(sc)+"|"+fmtSchedule(s), tr)
		hist[sc.name]++
		return steps
	}
	for _, sc := range scs {
		if idx > budget {
			break
		}
		nh := len(sc.scripts)
		for _, d := range sc.directed {
			emit(sc, schedule{directed: d})
		}
		if sc.directedOnly {
			continue
		}
		// non-pre-emptive runs for every starting handle; learn the number of steps
		total := 0
		for f := 0; f < nh; f++ {
			n := emit(sc, schedule{first: f})
			if n > total {
				total = n
			}
		}
		// one pre-emption at every step (quick: at most ~70 points per starting handle, spread evenly);
		// two pre-emptions in the thorough tier
		stride := 1
		if !c.thorough() && total > 70 {
			stride = (total + 69) / 70
		}
		for f := 0; f < nh; f++ {
			for a := 1 + (idx % stride); a < total+4; a += stride {
				emit(sc, schedule{first: f, switches: map[int]bool{a: true}})
				if maxPre >= 2 {
					for b := a + 1; b < total+4; b += 1 + (total / 12) {
						emit(sc, schedule{first: f, switches: map[int]bool{a: true, b: true}})
					}
				}
			}
		}
		// crash points: handle 0 crashes before each of its steps, the others continue
		for k := 0; k < total+2; k += stride {
			emit(sc, schedule{first: 0, crashAt: map[int]int{0: k}})
			if nh > 1 && (c.thorough() || k%2 == 0) {
				emit(sc, schedule{first: 1, switches: map[int]bool{2 + k%5: true}, crashAt: map[int]int{1: k}})
			}
		}
		// seeded random schedules
		for r := 0; r < nrand; r++ {
			var ex []int
			for i := 0; i < 3*total; i++ {
				// bursts: stay on a handle for a few steps
				h := c.rng.Intn(nh)
				for j := 0; j <= c.rng.Intn(4); j++ {
					ex = append(ex, h)
				}
			}
			s := schedule{explicit: ex}
			if c.rng.Intn(4) == 0 {
				s.crashAt = map[int]int{c.rng.Intn(nh): c.rng.Intn(total + 1)}
			}
			emit(sc, s)
		}
	}
	c.stats["executions_by_scenario"] = hist
	return nil
}

// spanAdditions: base table, then one Addition of two tables: the first with limits [n, n+k], the
// second with limits [n+off, n+off] (off <= k: inside the span, must be refused; off = k+1: legal);
// Commit whatever the Adds answered.  Reported: the ranges named by tables.list (judged by the
// extracted Compact.ranges_ok) and whether a fresh NewStack opens the directory.
func spanAdditions(c *ctx) error {
	for k := 1; k <= 3; k++ {
		for off := 1; off <= k+1; off++ {
			dir, err := ioutil.TempDir(c.work, "span")
			if err != nil {
				return err
			}
			cfg := reftable.Config{}
			st, err := reftable.NewStack(dir, cfg)
			if err != nil {
				return err
			}
			reftable.VerifSetAutoCompact(st, false)
			one := func(name string, lo, hi uint64) func(w *reftable.Writer) error {
				return func(w *reftable.Writer) error {
					w.SetLimits(lo, hi)
					return w.AddRef(&reftable.RefRecord{RefName: name, UpdateIndex: lo, Value: make([]byte, 20)})
				}
			}
			n := st.NextUpdateIndex()
			if err := st.Add(one("refs/heads/base", n, n)); err != nil {
				return err
			}
			n = st.NextUpdateIndex()
			tr, err := st.NewAddition()
			if err != nil {
				return err
			}
			tr.Add(one("refs/heads/a", n, n+uint64(k)))
			tr.Add(one("refs/heads/b", n+uint64(off), n+uint64(off)))
			tr.Commit()
			tr.Close()
			st.Close()
			var ranges []string
			for _, nm := range readList(dir) {
				var min, max uint64
				var rnd string
				fmt.Sscanf(nm, "0x%012x-0x%012x-%s", &min, &max, &rnd)
				ranges = append(ranges, fmt.Sprintf("%d-%d", min, max))
			}
			res := "open=ok"
			if st2, err := reftable.NewStack(dir, cfg); err != nil {
				res = "open=err"
			} else {
				st2.Close()
			}
			c.emit("listorder", strings.Join(ranges, ","), res)
			os.RemoveAll(dir)
		}
	}
	return nil
}
