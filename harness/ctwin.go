package main

// C15: the C implementation (/repo/c, built by bin/check into $VERIF_CDRV) reads
// what Go writes and writes what Go reads.

import (
	"bufio"
	"encoding/hex"
	"fmt"
	"io"
	"io/ioutil"
	"os"
	"os/exec"
	"path/filepath"
	"strings"

	"github.com/google/reftable"
)

func init() { props["c15"] = runCTwin }

type cdrv struct {
	cmd *exec.Cmd
	in  io.WriteCloser
	out *bufio.Reader
}

func startCdrv() (*cdrv, error) {
	p := os.Getenv("VERIF_CDRV")
	if p == "" {
		return nil, fmt.Errorf("VERIF_CDRV not set")
	}
	c := exec.Command(p)
	in, _ := c.StdinPipe()
	out, _ := c.StdoutPipe()
	if err := c.Start(); err != nil {
		return nil, err
	}
	return &cdrv{c, in, bufio.NewReaderSize(out, 1<<24)}, nil
}

func (d *cdrv) ask(line string) string {
	fmt.Fprintln(d.in, line)
	s, err := d.out.ReadString('\n')
	if err != nil {
		return "cdrv-died"
	}
	return strings.TrimRight(s, "\n")
}

func nulFree(t *tableCase) bool {
	for _, r := range t.refs {
		if strings.Contains(r.RefName, "\x00") || strings.Contains(r.Target, "\x00") {
			return false
		}
	}
	for _, l := range t.logs {
		if strings.Contains(l.RefName, "\x00") {
			return false
		}
	}
	return true
}

func orDash(s string) string {
	if s == "" {
		return "-"
	}
	return s
}

func runCTwin(c *ctx) error {
	d, err := startCdrv()
	if err != nil {
		return err
	}
	n := 150
	if c.thorough() {
		n = 4000
	}
	hist := map[string]int{}
	for i := 0; i < n; i++ {
		o := genOpts{maxRefs: 100, maxLogs: 30, smallBlocks: c.rng.Intn(3) > 0, sharedOids: c.rng.Intn(3) > 0}
		if c.rng.Intn(4) == 0 {
			o.maxRefs = 400 // many refs per object id: multi-block object index, dropped position lists
		}
		t := genTable(c.rng, o)
		if !nulFree(&t) {
			continue
		}
		if t.cfg.BlockSize != 0 && t.cfg.BlockSize < 100 {
			continue // both writers refuse; covered by C01
		}
		qs := tableQueries(c, &t, "c01")
		qsAll := append([]string{"sr:", fmt.Sprintf("sl::%d", ^uint64(0))}, qs...)
		// queries with an empty name confuse strtok in the driver: drop empty hex names other than the scans
		var cq []string
		for _, q := range qsAll {
			// keys are C strings on the C side: no NUL inside
			if p := strings.Split(q, ":"); len(p) >= 2 && p[0] != "rf" {
				if raw, err := hex.DecodeString(p[1]); err == nil && strings.Contains(string(raw), "\x00") {
					continue
				}
			}
			if strings.HasPrefix(q, "sr:") && q != "sr:" || strings.HasPrefix(q, "rf:") || strings.HasPrefix(q, "sl:") {
				cq = append(cq, q)
			} else if q == "sr:" {
				cq = append(cq, q)
			}
		}
		args := fmt.Sprintf("%s|%d|%d|%s|%s|%s", t.cfg, t.min, t.max, fmtRefs(t.refs), fmtLogs(t.logs), strings.Join(cq, ","))
		// leg 1: Go writes, C reads
		wres, data := writeTable(t.cfg, t.min, t.max, t.refs, t.logs)
		leg1 := "go-write-" + strings.SplitN(wres, ":", 2)[0]
		gf := filepath.Join(c.work, fmt.Sprintf("g%d.ref", i))
		if strings.HasPrefix(wres, "ok:") {
			ioutil.WriteFile(gf, data, 0644)
			leg1 = d.ask(fmt.Sprintf("R %s %s", gf, strings.Join(cq, ",")))
		}
		// leg 2: C writes, Go reads
		cf := filepath.Join(c.work, fmt.Sprintf("c%d.ref", i))
		st := d.ask(fmt.Sprintf("W %s %s %d %d %s %s", cf, t.cfg, t.min, t.max, orDash(fmtRefs(t.refs)), orDash(fmtLogs(t.logs))))
		cbytes := ""
		leg2 := "-"
		if st == "ok" {
			cd, _ := ioutil.ReadFile(cf)
			cbytes = hx(cd)
			rd, ores := openReader(cd)
			parts := []string{ores}
			if rd != nil {
				for _, q := range cq {
					parts = append(parts, runQuery(rd, q))
				}
			}
			leg2 = strings.Join(parts, "|")
		}
		if os.Getenv("VERIF_KEEP") == "" {
			os.Remove(gf)
			os.Remove(cf)
		}
		hist["go:"+strings.SplitN(wres, ":", 2)[0]+" c:"+st]++
		c.emit("ctable", args, leg1+"#"+st+"#"+cbytes+"#"+leg2)
	}
	d.in.Close()
	d.cmd.Wait()
	c.stats["write_status_hist"] = hist
	return nil
}

var _ = reftable.SHA1ID
