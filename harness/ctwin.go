package main

// C15: the C implementation (/repo/c, built by bin/check into $VERIF_CDRV) reads
// what Go writes and writes what Go reads.

import (
	"bufio"
	"encoding/hex"
	"fmt"
	"io"
	"io/ioutil"
	"os"
	"os/exec"
	"path/filepath"
	"sort"
	"strings"

	"github.com/google/reftable"
)

func init() { props["c15"] = runCTwin }

var ctwinDrv *cdrv

type cdrv struct {
	cmd *exec.Cmd
	in  io.WriteCloser
	out *bufio.Reader
}

func startCdrv() (*cdrv, error) {
	p := os.Getenv("VERIF_CDRV")
	if p == "" {
		return nil, fmt.Errorf("VERIF_CDRV not set")
	}
	c := exec.Command(p)
	in, _ := c.StdinPipe()
	out, _ := c.StdoutPipe()
	if err := c.Start(); err != nil {
		return nil, err
	}
	return &cdrv{c, in, bufio.NewReaderSize(out, 1<<24)}, nil
}

func (d *cdrv) ask(line string) string {
	fmt.Fprintln(d.in, line)
	s, err := d.out.ReadString('\n')
	if err != nil {
		return "cdrv-died"
	}
	return strings.TrimRight(s, "\n")
}

func nulFree(t *tableCase) bool {
	for _, r := range t.refs {
		if strings.Contains(r.RefName, "\x00") || strings.Contains(r.Target, "\x00") {
			return false
		}
	}
	for _, l := range t.logs {
		if strings.Contains(l.RefName, "\x00") {
			return false
		}
	}
	return true
}

func orDash(s string) string {
	if s == "" {
		return "-"
	}
	return s
}

func runCTwin(c *ctx) error {
	d, err := startCdrv()
	if err != nil {
		return err
	}
	n := 450
	if c.thorough() {
		n = 6000
	}
	hist := map[string]int{}
	fixed := indexEntryCases()
	for i := 0; i < n; i++ {
		o := genOpts{maxRefs: 100, maxLogs: 30, smallBlocks: c.rng.Intn(3) > 0, sharedOids: c.rng.Intn(3) > 0}
		if c.rng.Intn(4) == 0 {
			o.maxRefs = 400 // many refs per object id: multi-block object index, dropped position lists
		}
		t := genTable(c.rng, o)
		if i < len(fixed) {
			t = fixed[i] // keys that nearly fill a block: both writers must refuse them
		}
		if !nulFree(&t) {
			// names are NUL-terminated strings on the C side: leave those records out
			var rs []reftable.RefRecord
			for _, r := range t.refs {
				if !strings.Contains(r.RefName, "\x00") && !strings.Contains(r.Target, "\x00") {
					rs = append(rs, r)
				}
			}
			var ls []reftable.LogRecord
			for _, l := range t.logs {
				if !strings.Contains(l.RefName, "\x00") {
					ls = append(ls, l)
				}
			}
			t.refs, t.logs = rs, ls
		}
		// strings are NUL-terminated on the C side: a message with a NUL byte cannot be handed to the C API
		for k := range t.logs {
			t.logs[k].Message = strings.ReplaceAll(t.logs[k].Message, "\x00", "\x01")
		}
		if t.cfg.BlockSize != 0 && t.cfg.BlockSize < 100 {
			continue // both writers refuse; covered by C01
		}
		qs := tableQueries(c, &t, "c01")
		qsAll := append([]string{"sr:", fmt.Sprintf("sl::%d", ^uint64(0))}, qs...)
		// queries with an empty name confuse strtok in the driver: drop empty hex names other than the scans
		var cq []string
		for _, q := range qsAll {
			// keys are C strings on the C side: no NUL inside
			if p := strings.Split(q, ":"); len(p) >= 2 && p[0] != "rf" {
				if raw, err := hex.DecodeString(p[1]); err == nil && strings.Contains(string(raw), "\x00") {
					continue
				}
			}
			if strings.HasPrefix(q, "sr:") && q != "sr:" || strings.HasPrefix(q, "rf:") || strings.HasPrefix(q, "sl:") {
				cq = append(cq, q)
			} else if q == "sr:" {
				cq = append(cq, q)
			}
		}
		args := fmt.Sprintf("%s|%d|%d|%s|%s|%s", t.cfg, t.min, t.max, fmtRefs(t.refs), fmtLogs(t.logs), strings.Join(cq, ","))
		// leg 1: Go writes, C reads
		wres, data := writeTable(t.cfg, t.min, t.max, t.refs, t.logs)
		leg1 := "go-write-" + strings.SplitN(wres, ":", 2)[0]
		gf := filepath.Join(c.work, fmt.Sprintf("g%d.ref", i))
		if strings.HasPrefix(wres, "ok:") {
			ioutil.WriteFile(gf, data, 0644)
			leg1 = d.ask(fmt.Sprintf("R %s %s", gf, strings.Join(cq, ",")))
		}
		// leg 2: C writes, Go reads
		cf := filepath.Join(c.work, fmt.Sprintf("c%d.ref", i))
		st := d.ask(fmt.Sprintf("W %s %s %d %d %s %s", cf, t.cfg, t.min, t.max, orDash(fmtRefs(t.refs)), orDash(fmtLogs(t.logs))))
		cbytes := ""
		leg2 := "-"
		if st == "ok" {
			cd, _ := ioutil.ReadFile(cf)
			cbytes = hx(cd)
			rd, ores := openReader(cd)
			parts := []string{ores}
			if rd != nil {
				for _, q := range cq {
					parts = append(parts, runQuery(rd, q))
				}
			}
			leg2 = strings.Join(parts, "|")
		}
		if os.Getenv("VERIF_KEEP") == "" {
			os.Remove(gf)
			os.Remove(cf)
		}
		hist["go:"+strings.SplitN(wres, ":", 2)[0]+" c:"+st]++
		c.emit("ctable", args, leg1+"#"+st+"#"+cbytes+"#"+leg2)
	}
	c.stats["write_status_hist"] = hist
	// stack directories, leg 1: the Go stack writes (adds, multi-table Additions, compactions), C reads
	ctwinDrv = d
	if err := runHistories(c, "c15"); err != nil {
		return err
	}
	// leg 2: the C stack writes (adds with its own auto-compaction, compact_all), Go reads
	if err := cStackWrites(c, d); err != nil {
		return err
	}
	d.in.Close()
	d.cmd.Wait()
	return nil
}

func cStackWrites(c *ctx, d *cdrv) error {
	n := 120
	if c.thorough() {
		n = 2500
	}
	hist := map[string]int{}
	for i := 0; i < n; i++ {
		var cfg tcfg
		cfg.SHA256 = c.rng.Intn(4) == 0
		cfg.BlockSize = uint32(256 + c.rng.Intn(300))
		if c.rng.Intn(3) == 0 {
			cfg.BlockSize = 0
		}
		cfg.Restart = c.rng.Intn(5)
		cfg.Unaligned = c.rng.Intn(5) == 0
		cfg.Exact = c.rng.Intn(3) == 0
		cfg.SkipIdx = c.rng.Intn(3) == 0
		hs := cfg.hashSize()
		dir := filepath.Join(c.work, fmt.Sprintf("cs%d", i))
		os.MkdirAll(dir, 0755)
		var pool []string
		seen := map[string]bool{}
		for len(pool) < 3+c.rng.Intn(6) {
			nm := "refs/" + genName(c.rng)
			if len(nm) < 60 && !seen[nm] && !strings.Contains(nm, "\x00") {
				seen[nm] = true
				pool = append(pool, nm)
			}
		}
		var oids [][]byte
		for j := 0; j < 3; j++ {
			h := make([]byte, hs)
			c.rng.Read(h)
			oids = append(oids, h)
		}
		type lkey struct {
			n string
			u uint64
		}
		var liveLogs []lkey
		ui := uint64(1)
		nops := 3 + c.rng.Intn(12)
		var hops, cops []string
		// a shadow Go stack runs the same operations with name checking on: it tells which
		// transactions are refused (a refused one does not consume an update index)
		shdir := filepath.Join(c.work, fmt.Sprintf("cs%d-shadow", i))
		os.MkdirAll(shdir, 0755)
		shcfg := cfg.cfg()
		shadow, err := reftable.NewStack(shdir, shcfg)
		if err != nil {
			return err
		}
		reftable.VerifSetAutoCompact(shadow, false)
		applyShadow := func(o hop) bool {
			switch o.kind {
			case "A":
				return shadow.Add(func(w *reftable.Writer) error {
					w.SetLimits(ui, ui)
					for k := range o.refs {
						r := o.refs[k]
						if err := w.AddRef(&r); err != nil {
							return err
						}
					}
					for k := range o.logs {
						l := o.logs[k]
						if err := w.AddLog(&l); err != nil {
							return err
						}
					}
					return nil
				}) == nil
			case "M":
				tr, err := shadow.NewAddition()
				if err != nil {
					return false
				}
				defer tr.Close()
				for t := range o.multi {
					rs := o.multi[t]
					u := ui + uint64(t)
					if err := tr.Add(func(w *reftable.Writer) error {
						w.SetLimits(u, u)
						for k := range rs {
							r := rs[k]
							if err := w.AddRef(&r); err != nil {
								return err
							}
						}
						return nil
					}); err != nil {
						return false
					}
				}
				return tr.Commit() == nil
			}
			return true
		}
		for j := 0; j < nops; j++ {
			if j > 1 && c.rng.Intn(6) == 0 {
				hops = append(hops, "CA")
				cops = append(cops, "CA")
				continue
			}
			if j > 2 && c.rng.Intn(8) == 0 {
				// compact_all with reflog expiry (the C configuration has a time and a minimum update index)
				var tm, mn uint64
				if c.rng.Intn(2) == 0 {
					tm = uint64(998 + c.rng.Intn(14))
				}
				if c.rng.Intn(2) == 0 {
					mn = uint64(1 + c.rng.Intn(int(ui)))
				}
				hops = append(hops, fmt.Sprintf("CE:%d:0:%d", tm, mn))
				cops = append(cops, fmt.Sprintf("CE~%d~%d", tm, mn))
				// entries that expired can no longer be deleted "as existing"; keep the bookkeeping simple
				liveLogs = nil
				continue
			}
			if j > 0 && c.rng.Intn(6) == 0 {
				// a multi-table addition through the C API: 2..3 tables at consecutive update indices
				var o hop
				o.kind = "M"
				nt := 2 + c.rng.Intn(2)
				var cparts []string
				for t := 0; t < nt; t++ {
					pick := map[string]bool{}
					for k := 0; k < 1+c.rng.Intn(2); k++ {
						pick[pool[c.rng.Intn(len(pool))]] = true
					}
					var nm []string
					for k := range pick {
						nm = append(nm, k)
					}
					sort.Strings(nm)
					var rs []reftable.RefRecord
					for _, k := range nm {
						rec := reftable.RefRecord{RefName: k, UpdateIndex: ui + uint64(t)}
						switch c.rng.Intn(5) {
						case 0, 1:
						case 2:
							rec.Target = pool[c.rng.Intn(len(pool))]
						default:
							rec.Value = oids[c.rng.Intn(3)]
						}
						rs = append(rs, rec)
					}
					o.multi = append(o.multi, rs)
					cparts = append(cparts, fmtRefs(rs))
				}
				hops = append(hops, o.String())
				cops = append(cops, "M~"+strings.Join(cparts, "%"))
				if applyShadow(o) {
					ui += uint64(nt)
				}
				continue
			}
			var o hop
			o.kind = "A"
			pick := map[string]bool{}
			for k := 0; k < 1+c.rng.Intn(3); k++ {
				pick[pool[c.rng.Intn(len(pool))]] = true
			}
			var nm []string
			for k := range pick {
				nm = append(nm, k)
			}
			if j == 0 {
				// an anchor that is never deleted: the stack never becomes empty, so both
				// implementations keep counting update indices from the same place.  The first
				// transaction holds nothing else: a name conflict among its other refs would
				// refuse the anchor with them (a thorough run met that: the stack emptied, C
				// restarted at index 1 and rightly accepted an Addition the harness had numbered 7)
				nm = []string{"refs/~anchor"}
			}
			sort.Strings(nm)
			for _, k := range nm {
				rec := reftable.RefRecord{RefName: k, UpdateIndex: ui}
				kind := c.rng.Intn(6)
				if k == "refs/~anchor" {
					kind = 5
				}
				switch kind {
				case 0, 1:
				case 2:
					rec.Target = pool[c.rng.Intn(len(pool))]
				case 3:
					rec.Value = oids[c.rng.Intn(3)]
					rec.TargetValue = oids[c.rng.Intn(3)]
				default:
					rec.Value = oids[c.rng.Intn(3)]
				}
				o.refs = append(o.refs, rec)
			}
			set := map[lkey]bool{}
			for k := 0; k < c.rng.Intn(3); k++ {
				key := lkey{pool[c.rng.Intn(len(pool))], ui}
				if len(liveLogs) > 0 && c.rng.Intn(3) == 0 {
					key = liveLogs[c.rng.Intn(len(liveLogs))]
				}
				set[key] = true
			}
			var ks []lkey
			for k := range set {
				ks = append(ks, k)
			}
			sort.Slice(ks, func(a, b int) bool {
				return logKey(&reftable.LogRecord{RefName: ks[a].n, UpdateIndex: ks[a].u}) < logKey(&reftable.LogRecord{RefName: ks[b].n, UpdateIndex: ks[b].u})
			})
			for _, k := range ks {
				l := reftable.LogRecord{RefName: k.n, UpdateIndex: k.u}
				if k.u == ui { // else: a tombstone for an older entry
					liveLogs = append(liveLogs, k)
					l.New = oids[c.rng.Intn(3)]
					if c.rng.Intn(2) == 0 {
						l.Old = oids[c.rng.Intn(3)]
					}
					l.Name = "n"
					l.Email = "e"
					l.Time = uint64(1000 + c.rng.Intn(10))
					l.Message = []string{"m", "msg\n", " sp ", "x\n\n", "cr\r\n", "cr\r", "t\t\n"}[c.rng.Intn(7)]
					if cfg.Exact && c.rng.Intn(3) == 0 {
						l.Message = "two\nlines"
					}
				}
				o.logs = append(o.logs, l)
			}
			hops = append(hops, o.String())
			cops = append(cops, "A~"+orDash(fmtRefs(o.refs))+"~"+orDash(fmtLogs(o.logs)))
			if applyShadow(o) {
				ui++
			} else {
				// refused: its reflog entries do not exist
				var keep []lkey
				for _, k := range liveLogs {
					if k.u != ui {
						keep = append(keep, k)
					}
				}
				liveLogs = keep
			}
		}
		shadow.Close()
		os.RemoveAll(shdir)
		cst := d.ask(fmt.Sprintf("SW %s %s %s", dir, cfg, strings.Join(cops, "!")))
		gocfg := cfg.cfg()
		gocfg.SkipNameCheck = true
		view := "openerr"
		func() {
			defer func() {
				if r := recover(); r != nil {
					view = "panic"
				}
			}()
			st, err := reftable.NewStack(dir, gocfg)
			if err == nil {
				view = observe(st, dir, "ok")
				st.Close()
			}
		}()
		hist["c-statuses:"+cst]++
		os.RemoveAll(dir)
		c.emit("cstack_cg", fmt.Sprintf("%s|1|%s", cfg, strings.Join(hops, "!")), cst+"#"+view)
	}
	if len(hist) > 40 {
		hist = map[string]int{"(many)": len(hist)}
	}
	c.stats["c_stack_status_hist"] = hist
	return nil
}

var _ = reftable.SHA1ID
