package main

// Structured generators for tables (one PRNG, seeded by -seed).

import (
	"fmt"
	"math/rand"
	"sort"
	"strings"

	"github.com/google/reftable"
)

var comps = []string{"refs", "heads", "tags", "a", "b", "ab", "abc", "main", "x", "y0", "feature", "r", "HEAD", "z~", "\x01", "\xff\xfe", "m/n"}

func genName(rng *rand.Rand) string {
	switch rng.Intn(20) {
	case 0:
		return strings.Repeat("long/", 80+rng.Intn(20)) + comps[rng.Intn(len(comps))] // 400+ bytes
	case 1:
		b := make([]byte, 1+rng.Intn(6)) // arbitrary bytes incl. NUL
		rng.Read(b)
		return string(b)
	case 2:
		// a leading NUL: such a name's reflog keys sort in front of the key of ("", u)
		if rng.Intn(4) == 0 {
			return "\x00"
		}
		return "\x00" + comps[rng.Intn(len(comps))]
	}
	n := 1 + rng.Intn(4)
	p := make([]string, n)
	for i := range p {
		p[i] = comps[rng.Intn(len(comps))]
	}
	s := strings.Join(p, "/")
	if rng.Intn(3) == 0 {
		s += fmt.Sprintf("%d", rng.Intn(50))
	}
	return s
}

type tableCase struct {
	cfg      tcfg
	min, max uint64
	refs     []reftable.RefRecord
	logs     []reftable.LogRecord
}

func genHash(rng *rand.Rand, n int, pool [][]byte) []byte {
	if len(pool) > 0 && rng.Intn(3) == 0 {
		return pool[rng.Intn(len(pool))]
	}
	h := make([]byte, n)
	switch rng.Intn(4) {
	case 0: // compressible
		for i := range h {
			h[i] = byte(rng.Intn(2))
		}
	default:
		rng.Read(h)
	}
	return h
}

type genOpts struct {
	maxRefs, maxLogs int
	wantLogs         bool
	smallBlocks      bool // force many blocks / index levels
	sharedOids       bool // many refs pointing at few objects (object index, truncated position lists)
}

func genTable(rng *rand.Rand, o genOpts) tableCase {
	var t tableCase
	t.cfg.SHA256 = rng.Intn(4) == 0
	t.cfg.Unaligned = rng.Intn(4) == 0
	t.cfg.SkipIdx = rng.Intn(4) == 0
	t.cfg.Exact = rng.Intn(4) == 0
	switch rng.Intn(5) {
	case 0:
		t.cfg.Restart = 0
	default:
		t.cfg.Restart = 1 + rng.Intn(20)
	}
	switch rng.Intn(3) {
	case 0:
		t.min = 0
	case 1:
		t.min = 1 + uint64(rng.Intn(5))
	default:
		t.min = uint64(1)<<40 + uint64(rng.Intn(1000))
	}
	t.max = t.min + uint64(rng.Intn(12))
	hs := t.cfg.hashSize()

	// object pool
	var pool [][]byte
	np := 1 + rng.Intn(6)
	for i := 0; i < np; i++ {
		h := make([]byte, hs)
		rng.Read(h)
		if i > 0 && rng.Intn(3) == 0 { // share a long prefix with another object id
			copy(h, pool[rng.Intn(len(pool))][:1+rng.Intn(hs-1)])
		}
		pool = append(pool, h)
	}
	if !o.sharedOids && rng.Intn(2) == 0 {
		pool = nil
	}

	nrefs := 0
	if o.maxRefs > 0 {
		switch rng.Intn(6) {
		case 0:
			nrefs = 0
		case 1:
			nrefs = 1 + rng.Intn(3)
		default:
			nrefs = 1 + rng.Intn(o.maxRefs)
		}
	}
	names := map[string]bool{}
	for len(names) < nrefs {
		names[genName(rng)] = true
	}
	var nm []string
	for n := range names {
		nm = append(nm, n)
	}
	sort.Strings(nm)
	maxRec := 0
	for _, n := range nm {
		r := reftable.RefRecord{RefName: n, UpdateIndex: t.min + uint64(rng.Int63n(int64(t.max-t.min+1)))}
		sz := len(n) + 6
		switch rng.Intn(8) {
		case 0: // deletion
		case 1, 2:
			r.Target = "refs/heads/" + comps[rng.Intn(len(comps))]
			sz += len(r.Target) + 2
		case 3:
			r.Value = genHash(rng, hs, pool)
			r.TargetValue = genHash(rng, hs, pool)
			sz += 2 * hs
		default:
			r.Value = genHash(rng, hs, pool)
			sz += hs
		}
		if sz > maxRec {
			maxRec = sz
		}
		t.refs = append(t.refs, r)
	}

	nlogs := 0
	if o.maxLogs > 0 && (o.wantLogs || rng.Intn(2) == 0) {
		nlogs = rng.Intn(o.maxLogs + 1)
		if nrefs == 0 && nlogs == 0 && rng.Intn(3) > 0 {
			nlogs = 1 + rng.Intn(3)
		}
	}
	type lk struct {
		name string
		idx  uint64
	}
	lset := map[lk]bool{}
	var lnames []string
	for i := 0; i < 1+nlogs/3; i++ {
		if len(nm) > 0 && rng.Intn(2) == 0 {
			lnames = append(lnames, nm[rng.Intn(len(nm))])
		} else {
			lnames = append(lnames, genName(rng))
		}
	}
	for len(lset) < nlogs {
		k := lk{lnames[rng.Intn(len(lnames))], uint64(rng.Intn(12))}
		if rng.Intn(10) == 0 {
			k.idx = rng.Uint64()
		}
		lset[k] = true
	}
	var lks []lk
	for k := range lset {
		lks = append(lks, k)
	}
	sort.Slice(lks, func(i, j int) bool {
		if lks[i].name != lks[j].name {
			// compare as keys: name + NUL + reversed index
			a, b := lks[i].name+"\x00", lks[j].name+"\x00"
			if strings.HasPrefix(b, a) || strings.HasPrefix(a, b) || true {
				ka := (&reftable.LogRecord{RefName: lks[i].name, UpdateIndex: lks[i].idx})
				kb := (&reftable.LogRecord{RefName: lks[j].name, UpdateIndex: lks[j].idx})
				return logKey(ka) < logKey(kb)
			}
		}
		return lks[i].idx > lks[j].idx
	})
	for _, k := range lks {
		l := reftable.LogRecord{RefName: k.name, UpdateIndex: k.idx}
		sz := len(k.name) + 16
		if rng.Intn(8) != 0 {
			if rng.Intn(5) != 0 {
				l.Old = genHash(rng, hs, pool)
			}
			if rng.Intn(5) != 0 {
				l.New = genHash(rng, hs, pool)
			}
			l.Name = comps[rng.Intn(len(comps))]
			l.Email = comps[rng.Intn(len(comps))] + "@" + comps[rng.Intn(len(comps))]
			switch rng.Intn(4) {
			case 0:
				l.Time = 0
			case 1:
				l.Time = rng.Uint64()
			default:
				l.Time = uint64(1600000000 + rng.Intn(100000))
			}
			l.TZOffset = int16(rng.Intn(65536))
			msgs := []string{"commit: x", "m", "", " lead", "trail ", "\ttab", "x\n", "y\n\n", "\n", "zz ", " wide",
				// only trailing newlines are normalised: other trailing white space and control bytes stay
				"crlf\r\n", "cr\r", "\r", "x\r\n\n", "vt\v\n", "ff\f", "nul\x00\n", "sp \n", "tab\t\n", "\xc3\xa9\n", "\r\r", "a\x00"}
			l.Message = msgs[rng.Intn(len(msgs))]
			if t.cfg.Exact && rng.Intn(3) == 0 {
				l.Message = "multi\nline\nmessage"
			}
			if !t.cfg.Exact && rng.Intn(40) == 0 {
				l.Message = "bad\nmulti" // rejected by the writer
			}
			if l.Old == nil && l.New == nil && l.Name == "" && l.Email == "" && l.Time == 0 && l.TZOffset == 0 && l.Message == "" {
				l.Name = "n"
			}
			sz += 2*hs + len(l.Name) + len(l.Email) + len(l.Message) + 16
		}
		if sz > maxRec {
			maxRec = sz
		}
		t.logs = append(t.logs, l)
	}

	// block size: mostly small enough for several blocks, large enough for every record
	need := maxRec + 40
	switch {
	case o.smallBlocks || rng.Intn(3) > 0:
		lo := need
		if lo < 64 {
			lo = 64
		}
		t.cfg.BlockSize = uint32(lo + rng.Intn(200))
	case rng.Intn(2) == 0:
		t.cfg.BlockSize = 4096
	default:
		t.cfg.BlockSize = 0
	}
	if rng.Intn(40) == 0 { // sometimes too small: the writer must report an error
		t.cfg.BlockSize = uint32(48 + rng.Intn(40))
		if rng.Intn(3) == 0 {
			// smaller than the file header and a block header: NewWriter must refuse it
			t.cfg.BlockSize = uint32(1 + rng.Intn(47))
		}
	}
	return t
}

func logKey(l *reftable.LogRecord) string {
	var suffix [9]byte
	v := ^l.UpdateIndex
	for i := 0; i < 8; i++ {
		suffix[8-i] = byte(v >> (8 * uint(i)))
	}
	return l.RefName + string(suffix[:])
}
