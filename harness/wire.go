package main

// Wire format shared with ocaml/driver.ml (records, configs, results).

import (
	"bytes"
	"encoding/hex"
	"fmt"
	"strconv"
	"strings"

	"github.com/google/reftable"
)

type tcfg struct {
	Unaligned bool
	BlockSize uint32
	SkipIdx   bool
	Restart   int
	SHA256    bool
	Exact     bool
}

func b2i(b bool) int {
	if b {
		return 1
	}
	return 0
}

func (c tcfg) String() string {
	return fmt.Sprintf("%d,%d,%d,%d,%d,%d", b2i(c.Unaligned), c.BlockSize, b2i(c.SkipIdx), c.Restart, b2i(c.SHA256), b2i(c.Exact))
}

func (c tcfg) cfg() reftable.Config {
	r := reftable.Config{Unaligned: c.Unaligned, BlockSize: c.BlockSize, SkipIndexObjects: c.SkipIdx,
		RestartInterval: c.Restart, ExactLogMessage: c.Exact}
	if c.SHA256 {
		r.HashID = reftable.SHA256ID
	}
	return r
}

func (c tcfg) hashSize() int {
	if c.SHA256 {
		return 32
	}
	return 20
}

func hx(b []byte) string { return hex.EncodeToString(b) }
func hxs(s string) string { return hex.EncodeToString([]byte(s)) }

// name:index:kind[:h1[:h2]]
func fmtRef(r *reftable.RefRecord) string {
	switch {
	case r.Value == nil && r.TargetValue == nil && r.Target == "":
		return fmt.Sprintf("%s:%d:d", hxs(r.RefName), r.UpdateIndex)
	case len(r.Value) > 0 && len(r.TargetValue) > 0 && r.Target == "":
		return fmt.Sprintf("%s:%d:w:%s:%s", hxs(r.RefName), r.UpdateIndex, hx(r.Value), hx(r.TargetValue))
	case len(r.Value) > 0 && r.TargetValue == nil && r.Target == "":
		return fmt.Sprintf("%s:%d:v:%s", hxs(r.RefName), r.UpdateIndex, hx(r.Value))
	case r.Value == nil && r.TargetValue == nil && r.Target != "":
		return fmt.Sprintf("%s:%d:s:%s", hxs(r.RefName), r.UpdateIndex, hxs(r.Target))
	}
	return fmt.Sprintf("%s:%d:?:%s:%s:%s", hxs(r.RefName), r.UpdateIndex, hx(r.Value), hx(r.TargetValue), hxs(r.Target))
}

func optHex(b []byte) string {
	if b == nil {
		return "-"
	}
	return hx(b)
}

// name:index:x  (deletion)  |  name:index:u:old:new:name:email:time:tz:msg
func fmtLog(l *reftable.LogRecord) string {
	if l.IsDeletion() {
		return fmt.Sprintf("%s:%d:x", hxs(l.RefName), l.UpdateIndex)
	}
	return fmt.Sprintf("%s:%d:u:%s:%s:%s:%s:%d:%d:%s", hxs(l.RefName), l.UpdateIndex, optHex(l.Old), optHex(l.New),
		hxs(l.Name), hxs(l.Email), l.Time, uint16(l.TZOffset), hxs(l.Message))
}

func fmtRefs(rs []reftable.RefRecord) string {
	s := make([]string, len(rs))
	for i := range rs {
		s[i] = fmtRef(&rs[i])
	}
	return strings.Join(s, ";")
}

func fmtLogs(ls []reftable.LogRecord) string {
	s := make([]string, len(ls))
	for i := range ls {
		s[i] = fmtLog(&ls[i])
	}
	return strings.Join(s, ";")
}

// ---- running the implementation with recover ----

func writeTable(c tcfg, min, max uint64, refs []reftable.RefRecord, logs []reftable.LogRecord) (res string, data []byte) {
	defer func() {
		if r := recover(); r != nil {
			res = "panic"
			data = nil
		}
	}()
	buf := &bytes.Buffer{}
	cfg := c.cfg()
	w, err := reftable.NewWriter(buf, &cfg)
	if err != nil {
		return "err", nil
	}
	w.SetLimits(min, max)
	for i := range refs {
		r := refs[i]
		if err := w.AddRef(&r); err != nil {
			return "err", nil
		}
	}
	for i := range logs {
		l := logs[i]
		if err := w.AddLog(&l); err != nil {
			return "err", nil
		}
	}
	err = w.Close()
	if err == reftable.ErrEmptyTable {
		return "empty:" + hx(buf.Bytes()), buf.Bytes()
	}
	if err != nil {
		return "err", nil
	}
	return "ok:" + hx(buf.Bytes()), buf.Bytes()
}

func drainRefs(it *reftable.Iterator) (string, []reftable.RefRecord) {
	var out []reftable.RefRecord
	for {
		var r reftable.RefRecord
		ok, err := it.NextRef(&r)
		if err != nil {
			return "err", nil
		}
		if !ok {
			break
		}
		out = append(out, r)
	}
	return fmtRefs(out), out
}

func drainLogs(it *reftable.Iterator) (string, []reftable.LogRecord) {
	var out []reftable.LogRecord
	for {
		var l reftable.LogRecord
		ok, err := it.NextLog(&l)
		if err != nil {
			return "err", nil
		}
		if !ok {
			break
		}
		out = append(out, l)
	}
	return fmtLogs(out), out
}

type tableLike interface {
	SeekRef(string) (*reftable.Iterator, error)
	SeekLog(string, uint64) (*reftable.Iterator, error)
	RefsFor([]byte) (*reftable.Iterator, error)
}

// query: sr:<hexname> | sl:<hexname>:<idx> | rf:<hexoid>
func runQuery(t tableLike, q string) (res string) {
	defer func() {
		if r := recover(); r != nil {
			res = "panic"
		}
	}()
	p := strings.Split(q, ":")
	switch p[0] {
	case "sr":
		k, _ := hex.DecodeString(p[1])
		it, err := t.SeekRef(string(k))
		if err != nil {
			return "err"
		}
		s, _ := drainRefs(it)
		return s
	case "sl":
		k, _ := hex.DecodeString(p[1])
		u, _ := strconv.ParseUint(p[2], 10, 64)
		it, err := t.SeekLog(string(k), u)
		if err != nil {
			return "err"
		}
		s, _ := drainLogs(it)
		return s
	case "rr":
		k, _ := hex.DecodeString(p[1])
		tab, isTab := t.(reftable.Table)
		if !isTab {
			return "badquery"
		}
		r, err := reftable.ReadRef(tab, string(k))
		if err != nil {
			return "err"
		}
		if r == nil {
			return ""
		}
		return fmtRef(r)
	case "rl":
		k, _ := hex.DecodeString(p[1])
		u, _ := strconv.ParseUint(p[2], 10, 64)
		tab, isTab := t.(reftable.Table)
		if !isTab {
			return "badquery"
		}
		l, err := reftable.ReadLogAt(tab, string(k), u)
		if err != nil {
			return "err"
		}
		if l == nil {
			return ""
		}
		return fmtLog(l)
	case "rf":
		k, _ := hex.DecodeString(p[1])
		it, err := t.RefsFor(k)
		if err != nil {
			return "err"
		}
		s, _ := drainRefs(it)
		return s
	}
	return "badquery"
}

func openReader(data []byte) (rd *reftable.Reader, res string) {
	defer func() {
		if r := recover(); r != nil {
			rd = nil
			res = "panic"
		}
	}()
	r, err := reftable.NewReader(&reftable.ByteBlockSource{Source: data}, "t")
	if err != nil {
		return nil, "err"
	}
	return r, "ok"
}
