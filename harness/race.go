package main

// C19 validation of the translator: many goroutines read one shared Reader /
// Merged (memory- and file-backed) at once; built with -race; results are
// compared with the sequential results.

import (
	"bytes"
	"compress/zlib"
	"fmt"
	"io"
	"io/ioutil"
	"path/filepath"
	"strings"
	"sync"

	"github.com/google/reftable"
)

func init() { props["c19"] = runRace }

func runRace(c *ctx) error {
	longBlocks := 0
	wideTables := 0
	rounds := 6
	goroutines := 8
	perG := 120
	if c.thorough() {
		rounds, perG = 40, 400
	}
	for round := 0; round < rounds; round++ {
		var cfg tcfg
		cfg.SHA256 = round%3 == 2
		cfg.BlockSize = uint32(128 + c.rng.Intn(200))
		cfg.Restart = 1 + c.rng.Intn(5)
		cfg.Exact = true
		if cfg.SHA256 {
			cfg.BlockSize += 100
		}
		ts := genStackTables(c.rng, 3, cfg, true)
		var ts2 []tableCase
		for _, t := range ts {
			if len(t.refs)+len(t.logs) > 0 {
				ts2 = append(ts2, t)
			}
		}
		ts = ts2
		if len(ts) == 0 {
			continue
		}
		// big single table for the reader cases
		o := genOpts{maxRefs: 200, maxLogs: 40, smallBlocks: true, sharedOids: true, wantLogs: true}
		big := genTable(c.rng, o)
		big.cfg.Exact = true
		wres, data := writeTable(big.cfg, big.min, big.max, big.refs, big.logs)
		if !strings.HasPrefix(wres, "ok:") {
			continue
		}
		fn := filepath.Join(c.work, fmt.Sprintf("r%d.ref", round))
		ioutil.WriteFile(fn, data, 0644)
		memRd, _ := openReader(data)
		bs, err := reftable.NewFileBlockSource(fn)
		if err != nil {
			return err
		}
		fileRd, err := reftable.NewReader(bs, fn)
		if err != nil {
			return err
		}
		tabs, st := openTables(ts)
		if tabs == nil {
			return fmt.Errorf("openTables: %s", st)
		}
		hid := reftable.SHA1ID
		if cfg.SHA256 {
			hid = reftable.SHA256ID
		}
		merged, err := reftable.NewMerged(tabs, hid)
		if err != nil {
			return err
		}
		reftable.VerifSetSuppress(merged, true)
		type target struct {
			name string
			t    tableLike // shared by the goroutines; untouched before they start
			ref  tableLike // a twin opened from the same bytes: the sequential reference
			qs   []string
		}
		memRef, _ := openReader(data)
		bs2, err := reftable.NewFileBlockSource(fn)
		if err != nil {
			return err
		}
		fileRef, err := reftable.NewReader(bs2, fn)
		if err != nil {
			return err
		}
		tabs2, _ := openTables(ts)
		mergedRef, err := reftable.NewMerged(tabs2, hid)
		if err != nil {
			return err
		}
		reftable.VerifSetSuppress(mergedRef, true)
		// a reflog of incompressible records in small blocks: some log blocks are longer than the read window
		var inc tableCase
		inc.cfg = tcfg{BlockSize: uint32(150 + c.rng.Intn(60)), Exact: true, Restart: 3}
		inc.min, inc.max = 1, 9
		for k := 0; k < 60; k++ {
			h1 := make([]byte, 20)
			h2 := make([]byte, 20)
			c.rng.Read(h1)
			c.rng.Read(h2)
			nm := make([]byte, 6)
			c.rng.Read(nm)
			msg := make([]byte, 10+c.rng.Intn(30))
			c.rng.Read(msg)
			inc.logs = append(inc.logs, reftable.LogRecord{RefName: fmt.Sprintf("r%03d", k), UpdateIndex: 5, New: h1, Old: h2,
				Name: hx(nm), Email: hx(nm[:3]), Time: c.rng.Uint64(), Message: string(msg)})
		}
		var incRd, incRef *reftable.Reader
		for try := 0; try < 80 && incRd == nil; try++ {
			if try > 0 {
				// other random content, slightly other block size
				inc.cfg.BlockSize = uint32(150 + c.rng.Intn(60))
				for k := range inc.logs {
					c.rng.Read(inc.logs[k].New)
					c.rng.Read(inc.logs[k].Old)
					msg := make([]byte, 10+c.rng.Intn(30))
					c.rng.Read(msg)
					inc.logs[k].Message = string(msg)
				}
			}
			if w, d := writeTable(inc.cfg, inc.min, inc.max, nil, inc.logs); strings.HasPrefix(w, "ok:") {
				if n := longLogBlocks(d, inc.cfg.BlockSize); n > 0 {
					incRd, _ = openReader(d)
					incRef, _ = openReader(d)
					longBlocks += n
				}
			}
		}
		targets := []target{
			{"reader/memory", memRd, memRef, tableQueries(c, &big, "c01")},
			{"reader/file", fileRd, fileRef, tableQueries(c, &big, "c01")},
			{"merged", merged, mergedRef, stackQueries(c, ts, 6)},
		}
		if incRd != nil {
			targets = append(targets, target{"reader/incompressible-logs", incRd, incRef, tableQueries(c, &inc, "c02")})
		}
		// a table whose header names no block size (as other writers produce for unpadded
		// tables) with blocks longer than the default read window: every block is fetched in two steps
		var wide tableCase
		wide.cfg = tcfg{BlockSize: uint32(9000 + c.rng.Intn(9000)), Unaligned: true, Exact: true, Restart: 16, SHA256: cfg.SHA256}
		wide.min, wide.max = 1, 4
		hsz := 20
		if cfg.SHA256 {
			hsz = 32
		}
		for k := 0; k < 700; k++ {
			h1 := make([]byte, hsz)
			c.rng.Read(h1[:2])
			wide.refs = append(wide.refs, reftable.RefRecord{RefName: fmt.Sprintf("refs/heads/wide%05d", k), UpdateIndex: uint64(1 + k%4), Value: h1})
			if k%4 == 0 {
				h2 := make([]byte, hsz)
				c.rng.Read(h2)
				wide.logs = append(wide.logs, reftable.LogRecord{RefName: fmt.Sprintf("refs/heads/wide%05d", k), UpdateIndex: uint64(1 + k%4), New: h1, Old: h2,
					Name: "n", Email: "e", Time: uint64(k), Message: fmt.Sprintf("m%d", k)})
			}
		}
		if w, d := writeTable(wide.cfg, wide.min, wide.max, wide.refs, wide.logs); strings.HasPrefix(w, "ok:") {
			fsz := 68
			if d[4] == 2 {
				fsz = 72
			}
			copy(d[5:8], []byte{0, 0, 0})
			copy(d[len(d)-fsz+5:len(d)-fsz+8], []byte{0, 0, 0})
			fixCRC(d)
			wRd, _ := openReader(d)
			wRef, _ := openReader(append([]byte{}, d...))
			if wRd != nil && wRef != nil {
				targets = append(targets, target{"reader/memory-no-block-size", wRd, wRef, tableQueries(c, &wide, "c01")})
				wideTables++
			}
		}
		for _, tg := range targets {
			if len(tg.qs) == 0 {
				continue
			}
			// sequential reference
			want := map[string]string{}
			for _, q := range tg.qs {
				want[q] = runQuery(tg.ref, q)
			}
			var wg sync.WaitGroup
			bad := make([]int, goroutines)
			seeds := make([]int64, goroutines)
			for g := range seeds {
				seeds[g] = c.rng.Int63()
			}
			for g := 0; g < goroutines; g++ {
				wg.Add(1)
				go func(g int) {
					defer wg.Done()
					x := uint64(seeds[g])
					for k := 0; k < perG; k++ {
						x = x*6364136223846793005 + 1442695040888963407
						q := tg.qs[int(x>>33)%len(tg.qs)]
						if runQuery(tg.t, q) != want[q] {
							bad[g]++
						}
					}
				}(g)
			}
			wg.Wait()
			total := 0
			for _, b := range bad {
				total += b
			}
			res := "ok"
			if total > 0 {
				res = fmt.Sprintf("mismatch(%d)", total)
			}
			c.emit("concurrent", fmt.Sprintf("%s round=%d goroutines=%d queries=%d each=%d", tg.name, round, goroutines, len(tg.qs), perG), res)
		}
		fileRd.Close()
		fileRef.Close()
	}
	c.stats["log_blocks_longer_than_read_window"] = longBlocks
	c.stats["tables_without_header_block_size"] = wideTables
	return nil
}

// longLogBlocks counts the log blocks of a written table whose zlib stream does not fit
// the reader's first window (the block size): reading them takes the retry path.
func longLogBlocks(data []byte, blockSize uint32) int {
	rd, _ := openReader(data)
	if rd == nil {
		return 0
	}
	present, off, end, hdr := reftable.VerifLogSpan(rd)
	if !present || end > uint64(len(data)) {
		return 0
	}
	n := 0
	for off < end {
		start := off // the reader's window starts here
		if off == 0 {
			off = uint64(hdr) // the first block of a file begins after the file header
		}
		if off+4 >= end || data[off] != 'g' {
			break
		}
		br := bytes.NewReader(data[off+4 : end])
		zr, err := zlib.NewReader(br)
		if err != nil {
			break
		}
		if _, err := io.Copy(ioutil.Discard, zr); err != nil {
			break
		}
		off += uint64(4 + len(data[off+4:end]) - br.Len())
		if off-start > uint64(blockSize) {
			n++
		}
		// padded tables: skip zero padding up to the next block
		for off < end && data[off] == 0 {
			off++
		}
	}
	return n
}
