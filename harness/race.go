package main

// C19 validation of the translator: many goroutines read one shared Reader /
// Merged (memory- and file-backed) at once; built with -race; results are
// compared with the sequential results.

import (
	"fmt"
	"io/ioutil"
	"path/filepath"
	"strings"
	"sync"

	"github.com/google/reftable"
)

func init() { props["c19"] = runRace }

func runRace(c *ctx) error {
	rounds := 6
	goroutines := 8
	perG := 120
	if c.thorough() {
		rounds, perG = 40, 400
	}
	for round := 0; round < rounds; round++ {
		var cfg tcfg
		cfg.SHA256 = round%3 == 2
		cfg.BlockSize = uint32(128 + c.rng.Intn(200))
		cfg.Restart = 1 + c.rng.Intn(5)
		cfg.Exact = true
		if cfg.SHA256 {
			cfg.BlockSize += 100
		}
		ts := genStackTables(c.rng, 3, cfg, true)
		var ts2 []tableCase
		for _, t := range ts {
			if len(t.refs)+len(t.logs) > 0 {
				ts2 = append(ts2, t)
			}
		}
		ts = ts2
		if len(ts) == 0 {
			continue
		}
		// big single table for the reader cases
		o := genOpts{maxRefs: 200, maxLogs: 40, smallBlocks: true, sharedOids: true, wantLogs: true}
		big := genTable(c.rng, o)
		big.cfg.Exact = true
		wres, data := writeTable(big.cfg, big.min, big.max, big.refs, big.logs)
		if !strings.HasPrefix(wres, "ok:") {
			continue
		}
		fn := filepath.Join(c.work, fmt.Sprintf("r%d.ref", round))
		ioutil.WriteFile(fn, data, 0644)
		memRd, _ := openReader(data)
		bs, err := reftable.NewFileBlockSource(fn)
		if err != nil {
			return err
		}
		fileRd, err := reftable.NewReader(bs, fn)
		if err != nil {
			return err
		}
		tabs, st := openTables(ts)
		if tabs == nil {
			return fmt.Errorf("openTables: %s", st)
		}
		hid := reftable.SHA1ID
		if cfg.SHA256 {
			hid = reftable.SHA256ID
		}
		merged, err := reftable.NewMerged(tabs, hid)
		if err != nil {
			return err
		}
		reftable.VerifSetSuppress(merged, true)
		type target struct {
			name string
			t    tableLike
			qs   []string
		}
		// a reflog of incompressible records in small blocks: some log blocks are longer than the read window
		var inc tableCase
		inc.cfg = tcfg{BlockSize: uint32(150 + c.rng.Intn(60)), Exact: true, Restart: 3}
		inc.min, inc.max = 1, 9
		for k := 0; k < 60; k++ {
			h1 := make([]byte, 20)
			h2 := make([]byte, 20)
			c.rng.Read(h1)
			c.rng.Read(h2)
			nm := make([]byte, 6)
			c.rng.Read(nm)
			inc.logs = append(inc.logs, reftable.LogRecord{RefName: fmt.Sprintf("r%03d", k), UpdateIndex: 5, New: h1, Old: h2,
				Name: hx(nm), Email: hx(nm[:3]), Time: c.rng.Uint64(), Message: hx(nm)})
		}
		var incRd *reftable.Reader
		if w, d := writeTable(inc.cfg, inc.min, inc.max, nil, inc.logs); strings.HasPrefix(w, "ok:") {
			incRd, _ = openReader(d)
		}
		targets := []target{
			{"reader/memory", memRd, tableQueries(c, &big, "c01")},
			{"reader/file", fileRd, tableQueries(c, &big, "c01")},
			{"merged", merged, stackQueries(c, ts, 6)},
		}
		if incRd != nil {
			targets = append(targets, target{"reader/incompressible-logs", incRd, tableQueries(c, &inc, "c02")})
		}
		for _, tg := range targets {
			if len(tg.qs) == 0 {
				continue
			}
			// sequential reference
			want := map[string]string{}
			for _, q := range tg.qs {
				want[q] = runQuery(tg.t, q)
			}
			var wg sync.WaitGroup
			bad := make([]int, goroutines)
			seeds := make([]int64, goroutines)
			for g := range seeds {
				seeds[g] = c.rng.Int63()
			}
			for g := 0; g < goroutines; g++ {
				wg.Add(1)
				go func(g int) {
					defer wg.Done()
					x := uint64(seeds[g])
					for k := 0; k < perG; k++ {
						x = x*6364136223846793005 + 1442695040888963407
						q := tg.qs[int(x>>33)%len(tg.qs)]
						if runQuery(tg.t, q) != want[q] {
							bad[g]++
						}
					}
				}(g)
			}
			wg.Wait()
			total := 0
			for _, b := range bad {
				total += b
			}
			res := "ok"
			if total > 0 {
				res = fmt.Sprintf("mismatch(%d)", total)
			}
			c.emit("concurrent", fmt.Sprintf("%s round=%d goroutines=%d queries=%d each=%d", tg.name, round, goroutines, len(tg.qs), perG), res)
		}
		fileRd.Close()
	}
	return nil
}
