package main

import (
	"io/ioutil"
	"path/filepath"
	"fmt"
	"strings"

	"github.com/google/reftable"
)

func init() {
	props["c01"] = func(c *ctx) error { return runTables(c, "c01") }
	props["c02"] = func(c *ctx) error { return runTables(c, "c02") }
	props["c11"] = func(c *ctx) error {
		// single tables, then stacks (Merged.RefsFor with its double check)
		if err := runTables(c, "c11"); err != nil {
			return err
		}
		return runMerged(c)
	}
	props["c14"] = func(c *ctx) error { return runTables(c, "c14") }
}

func neighbours(k string) []string {
	out := []string{k, k + "\x00"}
	if len(k) > 0 {
		out = append(out, k[:len(k)-1])
		b := []byte(k)
		if b[len(b)-1] > 0 {
			b[len(b)-1]--
			out = append(out, string(b))
		}
		b = []byte(k)
		if b[len(b)-1] < 255 {
			b[len(b)-1]++
			out = append(out, string(b))
		}
	}
	return out
}

func tableQueries(c *ctx, t *tableCase, which string) []string {
	var qs []string
	pick := func(n, max int) []int {
		if n <= max {
			r := make([]int, n)
			for i := range r {
				r[i] = i
			}
			return r
		}
		r := []int{0, n - 1}
		for len(r) < max {
			r = append(r, c.rng.Intn(n))
		}
		return r
	}
	maxk := 6
	if c.thorough() {
		maxk = 16
	}
	if which == "c02" || which == "c01" || which == "c14" {
		if which != "c02" {
			maxk = 2
		}
		qs = append(qs, "sr:", "sr:"+hxs("\xff\xff\xff\xff"))
		for _, i := range pick(len(t.refs), maxk) {
			for _, k := range neighbours(t.refs[i].RefName) {
				qs = append(qs, "sr:"+hxs(k))
			}
		}
		if which == "c02" {
			// the point lookups ReadRef / ReadLogAt
			for _, i := range pick(len(t.refs), maxk) {
				for _, k := range neighbours(t.refs[i].RefName)[:3] {
					qs = append(qs, "rr:"+hxs(k))
				}
			}
			for _, i := range pick(len(t.logs), maxk) {
				l := t.logs[i]
				for _, u := range []uint64{l.UpdateIndex, l.UpdateIndex + 1, l.UpdateIndex - 1, ^uint64(0)} {
					qs = append(qs, fmt.Sprintf("rl:%s:%d", hxs(l.RefName), u))
				}
				qs = append(qs, fmt.Sprintf("rl:%s:%d", hxs(l.RefName+"\x00"), l.UpdateIndex))
			}
		}
		qs = append(qs, "sl::0", fmt.Sprintf("sl::%d", ^uint64(0)), "sl:"+hxs("\xff\xff")+":5")
		if len(t.logs) > 0 {
			// the empty name with an ordinary update index: only keys at or behind ("", u) follow
			u := t.logs[c.rng.Intn(len(t.logs))].UpdateIndex
			qs = append(qs, fmt.Sprintf("sl::%d", u), fmt.Sprintf("sl:00:%d", u))
			if which == "c02" {
				qs = append(qs, fmt.Sprintf("rl::%d", u))
			}
		}
		for _, i := range pick(len(t.logs), maxk) {
			l := t.logs[i]
			for _, u := range []uint64{0, l.UpdateIndex, l.UpdateIndex + 1, l.UpdateIndex - 1, ^uint64(0)} {
				qs = append(qs, fmt.Sprintf("sl:%s:%d", hxs(l.RefName), u))
			}
			qs = append(qs, fmt.Sprintf("sl:%s:%d", hxs(l.RefName+"\x00"), l.UpdateIndex))
			if len(l.RefName) > 0 {
				qs = append(qs, fmt.Sprintf("sl:%s:%d", hxs(l.RefName[:len(l.RefName)-1]), l.UpdateIndex))
			}
		}
	}
	if which == "c11" || which == "c01" || which == "c14" {
		hs := t.cfg.hashSize()
		seen := map[string]bool{}
		var oids [][]byte
		for _, r := range t.refs {
			for _, h := range [][]byte{r.Value, r.TargetValue} {
				if h != nil && !seen[string(h)] {
					seen[string(h)] = true
					oids = append(oids, h)
				}
			}
		}
		mo := maxk
		if which != "c11" {
			mo = 2
		}
		for _, i := range pick(len(oids), mo) {
			qs = append(qs, "rf:"+hx(oids[i]))
			// same abbreviated prefix, different tail
			h := append([]byte{}, oids[i]...)
			h[hs-1] ^= 0x55
			qs = append(qs, "rf:"+hx(h))
		}
		absent := make([]byte, hs)
		c.rng.Read(absent)
		qs = append(qs, "rf:"+hx(absent))
	}
	return qs
}

// unit tie of the block writer at the restart-count cap (65535 restart points)
func runBwCap(c *ctx) {
	for _, n := range []int{0, 1, 2, 255, 256, 65533, 65534, 65535} {
		for _, iv := range []int{1, 16} {
			ok, r, l, st := reftable.VerifBwCap(n, iv, "k")
			c.emit("bwcap", fmt.Sprintf("%d,%d", n, iv), fmt.Sprintf("%v %d %d %d", ok, r, l, st))
		}
	}
}

// records whose key nearly fills a block while their payload is tiny: the index entry of such a
// block (key + block position) is longer than the record itself.  The pinned writer accepted every
// record and then panicked in Close ("fail on fresh block"); it must refuse the record instead.
func indexEntryCases() []tableCase {
	var out []tableCase
	for _, un := range []bool{false, true} {
		var t tableCase
		t.cfg = tcfg{BlockSize: 256, Unaligned: un}
		t.min, t.max = 1, 1
		for i, ch := range "abcde" {
			n := 243
			if i == 0 {
				n = 219 // the first block also carries the 24-byte file header
			}
			name := "refs/heads/" + string(ch) + strings.Repeat("x", n-12)
			t.refs = append(t.refs, reftable.RefRecord{RefName: name, UpdateIndex: 1})
		}
		out = append(out, t)
	}
	var l tableCase
	l.cfg = tcfg{BlockSize: 256, Unaligned: true}
	l.min, l.max = 1, 1
	for i, ch := range "abc" {
		n := 235
		if i == 0 {
			n = 211
		}
		l.logs = append(l.logs, reftable.LogRecord{RefName: "refs/heads/" + string(ch) + strings.Repeat("y", n-12), UpdateIndex: 1})
	}
	return append(out, l)
}

// one object id in very many ref blocks: position lists longer than any small constant, longer
// than the block size has bytes (the list cannot fit: positions dropped), and in between
func popularCases(c *ctx) []tableCase {
	var out []tableCase
	for k, sh := range []struct {
		bs, n, every int
	}{{100 + c.rng.Intn(28), 420, 1}, {256, 520, 1}, {180 + c.rng.Intn(40), 450, 2}, {300, 700, 3}} {
		var t tableCase
		t.cfg = tcfg{BlockSize: uint32(sh.bs), SHA256: k == 3, Restart: 1 + c.rng.Intn(4)}
		t.min, t.max = 1, 3
		hs := t.cfg.hashSize()
		pop := make([]byte, hs)
		c.rng.Read(pop)
		for i := 0; i < sh.n; i++ {
			r := reftable.RefRecord{RefName: fmt.Sprintf("p%04d", i), UpdateIndex: uint64(1 + i%3)}
			h := make([]byte, hs)
			c.rng.Read(h)
			if i%sh.every == 0 {
				h = pop
			}
			if i%7 == 3 {
				r.Value, r.TargetValue = h, pop
			} else {
				r.Value = h
			}
			t.refs = append(t.refs, r)
		}
		out = append(out, t)
	}
	return out
}

// object ids that differ in their LAST byte only (the shortest distinguishing prefix is the whole
// id: 32 bytes with SHA-256 do not fit the 5-bit field of the footer, so no object index may be
// written), refs to the second id in blocks that hold no ref to the first
func longPrefixCases(c *ctx) []tableCase {
	var out []tableCase
	for _, sha := range []bool{false, true} {
		var t tableCase
		t.cfg = tcfg{BlockSize: 256, SHA256: sha, Restart: 1 + c.rng.Intn(4)}
		t.min, t.max = 1, 1
		hs := t.cfg.hashSize()
		a := make([]byte, hs)
		c.rng.Read(a)
		b := append([]byte{}, a...)
		a[hs-1], b[hs-1] = 1, 2
		for i := 0; i < 40; i++ {
			r := reftable.RefRecord{RefName: fmt.Sprintf("refs/heads/branch%02d", i), UpdateIndex: 1}
			h := make([]byte, hs)
			c.rng.Read(h)
			switch {
			case i == 0 || i >= 37:
				h = a
			case i == 20 || i == 29:
				h = b
			}
			r.Value = h
			t.refs = append(t.refs, r)
		}
		out = append(out, t)
	}
	return out
}

func runTables(c *ctx, which string) error {
	if which == "c01" || which == "c14" || which == "c11" {
		for _, t := range append(popularCases(c), longPrefixCases(c)...) {
			t := t
			qs := []string{"sr:"}
			seen := map[string]bool{}
			for _, r := range t.refs {
				for _, h := range [][]byte{r.Value, r.TargetValue} {
					if h != nil && !seen[string(h)] && len(seen) < 3 {
						seen[string(h)] = true
						qs = append(qs, "rf:"+hx(h))
					}
				}
			}
			runTableCase(c, &t, qs, map[string]int{})
		}
	}
	if which == "c01" || which == "c14" {
		runBwCap(c)
		for _, t := range indexEntryCases() {
			t := t
			runTableCase(c, &t, []string{"sr:"}, map[string]int{})
		}
		for _, sha := range []bool{false, true} {
			e := tableCase{cfg: tcfg{SHA256: sha}, min: 1, max: 1}
			runTableCase(c, &e, nil, map[string]int{})
			// block sizes around the smallest one that holds the file header and a block header:
			// an empty table and a table of one ref
			for _, bs := range []uint32{1, 2, 23, 24, 25, 27, 28, 29, 31, 32, 33, 57, 58, 73, 74} {
				e := tableCase{cfg: tcfg{SHA256: sha, BlockSize: bs}, min: 1, max: 1}
				runTableCase(c, &e, nil, map[string]int{})
				one := e
				one.refs = []reftable.RefRecord{{RefName: "r0", UpdateIndex: 1, Value: make([]byte, e.cfg.hashSize())}}
				runTableCase(c, &one, []string{"sr:"}, map[string]int{})
			}
		}
	}
	n := 250
	if c.thorough() {
		n = 6000
	}
	o := genOpts{maxRefs: 120, maxLogs: 40}
	hist := map[string]int{}
	for i := 0; i < n; i++ {
		oo := o
		switch which {
		case "c02":
			oo.smallBlocks = true
			oo.wantLogs = c.rng.Intn(2) == 0
			if c.rng.Intn(4) == 0 {
				oo.maxRefs = 400
			}
		case "c11":
			oo.smallBlocks = c.rng.Intn(3) > 0
			oo.sharedOids = true
			oo.maxLogs = 4
			if c.rng.Intn(3) == 0 {
				oo.maxRefs = 400
			}
		}
		t := genTable(c.rng, oo)
		runTableCase(c, &t, tableQueries(c, &t, which), hist)
	}
	c.stats["table_shape_hist"] = hist
	return nil
}

func bucket(n int) string {
	switch {
	case n == 0:
		return "0"
	case n <= 3:
		return "1-3"
	case n <= 30:
		return "4-30"
	case n <= 120:
		return "31-120"
	}
	return ">120"
}

func runTableCase(c *ctx, t *tableCase, qs []string, hist map[string]int) {
	args := fmt.Sprintf("%s|%d|%d|%s|%s|%s", t.cfg, t.min, t.max, fmtRefs(t.refs), fmtLogs(t.logs), strings.Join(qs, ","))
	wres, data := writeTable(t.cfg, t.min, t.max, t.refs, t.logs)
	parts := []string{wres}
	if data != nil && strings.HasPrefix(wres, "empty") {
		// the header+footer file of an empty table is a valid table: it opens, and every query
		// (RefsFor included) answers "nothing"
		rd, ores := openReader(data)
		parts = append(parts, ores)
		if rd != nil {
			for _, q := range []string{"sr:", fmt.Sprintf("sl::%d", ^uint64(0)), "rf:" + strings.Repeat("00", t.cfg.hashSize())} {
				parts = append(parts, runQuery(rd, q))
			}
		}
		hist["write:empty"]++
	} else if data != nil {
		rd, ores := openReader(data)
		parts = append(parts, ores)
		if rd != nil {
			// the same table through the file block source (what a Stack uses): every answer must be
			// the one the memory-backed reader gives
			var frd *reftable.Reader
			fn := filepath.Join(c.work, "tbl.ref")
			if err := ioutil.WriteFile(fn, data, 0644); err == nil {
				if bs, err := reftable.NewFileBlockSource(fn); err == nil {
					if r2, err := reftable.NewReader(bs, fn); err == nil {
						frd = r2
						defer frd.Close()
					}
				}
			}
			both := func(q string) string {
				a := runQuery(rd, q)
				if frd != nil {
					if b := runQuery(frd, q); b != a {
						return "file-backed-reader-differs(" + b + ")"
					}
				}
				return a
			}
			parts = append(parts, both("sr:"), both(fmt.Sprintf("sl::%d", ^uint64(0))))
			for _, q := range qs {
				parts = append(parts, both(q))
			}
			hist[fmt.Sprintf("refs=%s logs=%s blocks~%d", bucket(len(t.refs)), bucket(len(t.logs)), blockClass(len(data), t.cfg.BlockSize))]++
		}
	} else {
		hist["write:"+strings.SplitN(wres, ":", 2)[0]]++
	}
	c.emit("table", args, strings.Join(parts, "|"))
}

func blockClass(sz int, bs uint32) int {
	if bs == 0 {
		bs = 4096
	}
	n := sz / int(bs)
	switch {
	case n <= 1:
		return 1
	case n <= 4:
		return 4
	case n <= 16:
		return 16
	}
	return 64
}

var _ = reftable.SHA1ID
