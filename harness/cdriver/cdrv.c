/* C15: a line-protocol driver around the C implementation in /repo/c (built by
   bin/check from the working tree).  Requests on stdin:
     R <file> <query>,<query>,...   -> results joined by '|'  (same wire format as the Go harness)
     W <file> <unaligned,blocksize,skipidx,restart,sha256,exact> <min> <max> <refs> <logs>  -> ok | empty | err<code>
     SR <dir> <sha256>              -> ok|<all refs>|<all logs> through the stack's merged table
     SC <dir> <cfg>                 -> <view>#rc=ok|err#<view>: compact everything through a handle with these options
     SW <dir> <cfg> <op>!<op>...    -> a stack written by the C code (op = A~refs~logs | M~refs%refs... | CA | CE~time~min_update_index): status per op
*/
#include <stdint.h>
#include <stdio.h>
#include <stdlib.h>
#include <string.h>
#include <unistd.h>
#include <fcntl.h>

#include "reftable-blocksource.h"
#include "reftable-error.h"
#include "reftable-iterator.h"
#include "reftable-reader.h"
#include "reftable-record.h"
#include "reftable-writer.h"
#include "reftable-merged.h"
#include "reftable-stack.h"

#define SHA1_ID 0x73686131
#define SHA256_ID 0x73323536

static int hexval(int c) { return c <= '9' ? c - '0' : c - 'a' + 10; }

static uint8_t *unhex(const char *s, int *lenp)
{
	int n = strlen(s) / 2, i;
	uint8_t *out = malloc(n + 1);
	for (i = 0; i < n; i++)
		out[i] = hexval(s[2 * i]) * 16 + hexval(s[2 * i + 1]);
	out[n] = 0;
	if (lenp)
		*lenp = n;
	return out;
}

static void puthex(const uint8_t *p, int n)
{
	int i;
	for (i = 0; i < n; i++)
		printf("%02x", p[i]);
}

static void putshex(const char *s)
{
	if (s)
		puthex((const uint8_t *)s, strlen(s));
}

static void print_ref(struct reftable_ref_record *r, int hs)
{
	putshex(r->refname);
	printf(":%llu:", (unsigned long long)r->update_index);
	switch (r->value_type) {
	case REFTABLE_REF_DELETION:
		printf("d");
		break;
	case REFTABLE_REF_VAL1:
		printf("v:");
		puthex(r->value.val1, hs);
		break;
	case REFTABLE_REF_VAL2:
		printf("w:");
		puthex(r->value.val2.value, hs);
		printf(":");
		puthex(r->value.val2.target_value, hs);
		break;
	case REFTABLE_REF_SYMREF:
		printf("s:");
		putshex(r->value.symref);
		break;
	}
}

static void print_log(struct reftable_log_record *l, int hs)
{
	putshex(l->refname);
	printf(":%llu:", (unsigned long long)l->update_index);
	if (l->value_type == REFTABLE_LOG_DELETION) {
		printf("x");
		return;
	}
	printf("u:");
	if (l->value.update.old_hash)
		puthex(l->value.update.old_hash, hs);
	else
		printf("-");
	printf(":");
	if (l->value.update.new_hash)
		puthex(l->value.update.new_hash, hs);
	else
		printf("-");
	printf(":");
	putshex(l->value.update.name);
	printf(":");
	putshex(l->value.update.email);
	{
		/* the value a caller sees: minutes east of UTC, a signed 16 bit quantity (printed
		   like the Go side prints it, as its two's complement); anything else is shown raw */
		long tz = (long)l->value.update.tz_offset;
		printf(":%llu:", (unsigned long long)l->value.update.time);
		if (tz < -32768 || tz > 32767)
			printf("%ld!not-int16:", tz);
		else
			printf("%u:", (unsigned)(uint16_t)tz);
	}
	putshex(l->value.update.message);
}

static void drain_refs(struct reftable_iterator *it, int hs)
{
	struct reftable_ref_record ref = { 0 };
	int first = 1;
	while (1) {
		int err = reftable_iterator_next_ref(it, &ref);
		if (err > 0)
			break;
		if (err < 0) {
			printf("%serr", first ? "" : ";");
			break;
		}
		if (!first)
			printf(";");
		first = 0;
		print_ref(&ref, hs);
	}
	reftable_ref_record_release(&ref);
}

static void drain_logs(struct reftable_iterator *it, int hs)
{
	struct reftable_log_record log = { 0 };
	int first = 1;
	while (1) {
		int err = reftable_iterator_next_log(it, &log);
		if (err > 0)
			break;
		if (err < 0) {
			printf("%serr", first ? "" : ";");
			break;
		}
		if (!first)
			printf(";");
		first = 0;
		print_log(&log, hs);
	}
	reftable_log_record_release(&log);
}

static void do_read(char *file, char *queries)
{
	struct reftable_block_source src = { 0 };
	struct reftable_reader *rd = NULL;
	int err = reftable_block_source_from_file(&src, file);
	int hs;
	char *q, *save = NULL;
	if (err < 0) {
		printf("openerr\n");
		return;
	}
	err = reftable_new_reader(&rd, &src, file);
	if (err < 0) {
		printf("readererr\n");
		return;
	}
	hs = reftable_reader_hash_id(rd) == SHA256_ID ? 32 : 20;
	printf("ok");
	for (q = strtok_r(queries, ",", &save); q; q = strtok_r(NULL, ",", &save)) {
		struct reftable_iterator it = { 0 };
		char *a = strchr(q, ':');
		printf("|");
		if (!a)
			continue;
		*a++ = 0;
		if (!strcmp(q, "sr")) {
			uint8_t *name = unhex(a, NULL);
			err = reftable_reader_seek_ref(rd, &it, (char *)name);
			if (err < 0)
				printf("err");
			else if (err == 0) /* > 0: nothing at or after the key */
				drain_refs(&it, hs);
			free(name);
		} else if (!strcmp(q, "sl")) {
			char *b = strchr(a, ':');
			uint8_t *name;
			uint64_t idx;
			*b++ = 0;
			name = unhex(a, NULL);
			idx = strtoull(b, NULL, 10);
			err = reftable_reader_seek_log_at(rd, &it, (char *)name, idx);
			if (err < 0)
				printf("err");
			else if (err == 0)
				drain_logs(&it, hs);
			free(name);
		} else if (!strcmp(q, "rf")) {
			uint8_t *oid = unhex(a, NULL);
			err = reftable_reader_refs_for(rd, &it, oid);
			if (err < 0)
				printf("err");
			else if (err == 0)
				drain_refs(&it, hs);
			free(oid);
		}
		if (it.ops)
			reftable_iterator_destroy(&it);
	}
	printf("\n");
	reftable_reader_free(rd);
}

static ssize_t fd_write(void *arg, const void *data, size_t sz)
{
	int *fd = arg;
	return write(*fd, data, sz);
}

/* split s on c into at most max parts (in place) */
static int split(char *s, char c, char **parts, int max)
{
	int n = 0;
	parts[n++] = s;
	while (*s && n < max) {
		if (*s == c) {
			*s = 0;
			parts[n++] = s + 1;
		}
		s++;
	}
	return n;
}

/* add refs then logs given in the wire format ("-" = none) */
static int add_records(struct reftable_writer *w, char *refs, char *logs)
{
	int err = 0;
	if (strcmp(refs, "-")) {
		char *save = NULL, *r;
		for (r = strtok_r(refs, ";", &save); r && !err; r = strtok_r(NULL, ";", &save)) {
			char *p[5];
			int n = split(r, ':', p, 5);
			struct reftable_ref_record ref = { 0 };
			uint8_t *name = unhex(p[0], NULL), *h1 = NULL, *h2 = NULL;
			ref.refname = (char *)name;
			ref.update_index = strtoull(p[1], NULL, 10);
			switch (p[2][0]) {
			case 'd':
				ref.value_type = REFTABLE_REF_DELETION;
				break;
			case 'v':
				ref.value_type = REFTABLE_REF_VAL1;
				ref.value.val1 = h1 = unhex(p[3], NULL);
				break;
			case 'w':
				ref.value_type = REFTABLE_REF_VAL2;
				ref.value.val2.value = h1 = unhex(p[3], NULL);
				ref.value.val2.target_value = h2 = unhex(p[4], NULL);
				break;
			case 's':
				ref.value_type = REFTABLE_REF_SYMREF;
				ref.value.symref = (char *)(h1 = unhex(p[3], NULL));
				break;
			}
			(void)n;
			err = reftable_writer_add_ref(w, &ref);
			free(name);
			free(h1);
			free(h2);
		}
	}
	if (!err && strcmp(logs, "-")) {
		char *save = NULL, *r;
		for (r = strtok_r(logs, ";", &save); r && !err; r = strtok_r(NULL, ";", &save)) {
			char *p[10];
			int n = split(r, ':', p, 10);
			struct reftable_log_record log = { 0 };
			uint8_t *name = unhex(p[0], NULL), *o = NULL, *nw = NULL, *nm = NULL, *em = NULL, *msg = NULL;
			log.refname = (char *)name;
			log.update_index = strtoull(p[1], NULL, 10);
			if (p[2][0] == 'x') {
				log.value_type = REFTABLE_LOG_DELETION;
			} else {
				log.value_type = REFTABLE_LOG_UPDATE;
				if (strcmp(p[3], "-"))
					log.value.update.old_hash = o = unhex(p[3], NULL);
				if (strcmp(p[4], "-"))
					log.value.update.new_hash = nw = unhex(p[4], NULL);
				log.value.update.name = (char *)(nm = unhex(p[5], NULL));
				log.value.update.email = (char *)(em = unhex(p[6], NULL));
				log.value.update.time = strtoull(p[7], NULL, 10);
				log.value.update.tz_offset = (int16_t)(uint16_t)strtoul(p[8], NULL, 10);
				log.value.update.message = (char *)(msg = unhex(n > 9 ? p[9] : "", NULL));
			}
						err = reftable_writer_add_log(w, &log);
			free(name);
			free(o);
			free(nw);
			free(nm);
			free(em);
			free(msg);
		}
	}
	return err;
}

static void do_write(char *file, char *cfg, char *mins, char *maxs, char *refs, char *logs)
{
	struct reftable_write_options opts = { 0 };
	char *c[6];
	int fd, err = 0, hs;
	struct reftable_writer *w;
	if (split(cfg, ',', c, 6) != 6) {
		printf("badcfg\n");
		return;
	}
	opts.unpadded = atoi(c[0]);
	opts.block_size = strtoul(c[1], NULL, 10);
	opts.skip_index_objects = atoi(c[2]);
	opts.restart_interval = atoi(c[3]);
	opts.hash_id = atoi(c[4]) ? SHA256_ID : SHA1_ID;
	opts.exact_log_message = atoi(c[5]);
	hs = atoi(c[4]) ? 32 : 20;
	fd = open(file, O_WRONLY | O_CREAT | O_TRUNC, 0644);
	w = reftable_new_writer(fd_write, &fd, &opts);
	reftable_writer_set_limits(w, strtoull(mins, NULL, 10), strtoull(maxs, NULL, 10));
	err = add_records(w, refs, logs);
	if (!err)
		err = reftable_writer_close(w);
	reftable_writer_free(w);
	close(fd);
	if (err == REFTABLE_EMPTY_TABLE_ERROR)
		printf("empty\n");
	else if (err < 0)
		printf("err%d\n", err);
	else
		printf("ok\n");
}


/* SR <dir> <sha256>: open the stack directory, scan all refs and all logs through its merged table */
static void do_stack_read(char *dir, char *sha)
{
	struct reftable_write_options cfg = { 0 };
	struct reftable_stack *st = NULL;
	struct reftable_merged_table *mt;
	struct reftable_iterator it = { 0 };
	int hs = atoi(sha) ? 32 : 20, err;
	cfg.hash_id = atoi(sha) ? SHA256_ID : SHA1_ID;
	err = reftable_new_stack(&st, dir, cfg);
	if (err < 0) {
		printf("err%d\n", err);
		return;
	}
	mt = reftable_stack_merged_table(st);
	printf("ok|");
	err = reftable_merged_table_seek_ref(mt, &it, "");
	if (err < 0)
		printf("err");
	else if (err == 0)
		drain_refs(&it, hs);
	if (it.ops)
		reftable_iterator_destroy(&it);
	memset(&it, 0, sizeof(it));
	printf("|");
	err = reftable_merged_table_seek_log(mt, &it, "");
	if (err < 0)
		printf("err");
	else if (err == 0)
		drain_logs(&it, hs);
	if (it.ops)
		reftable_iterator_destroy(&it);
	printf("\n");
	reftable_stack_destroy(st);
}

static void print_view(struct reftable_stack *st, int hs)
{
	struct reftable_merged_table *mt = reftable_stack_merged_table(st);
	struct reftable_iterator it = { 0 };
	int err;
	printf("ok|");
	err = reftable_merged_table_seek_ref(mt, &it, "");
	if (err < 0)
		printf("err");
	else if (err == 0)
		drain_refs(&it, hs);
	if (it.ops)
		reftable_iterator_destroy(&it);
	memset(&it, 0, sizeof(it));
	printf("|");
	err = reftable_merged_table_seek_log(mt, &it, "");
	if (err < 0)
		printf("err");
	else if (err == 0)
		drain_logs(&it, hs);
	if (it.ops)
		reftable_iterator_destroy(&it);
}

/* SC <dir> <cfg>: open the stack directory with the given options (which may differ from those of
   the handle that wrote it), print the view, compact everything, print the result and the view again:
   <view>#rc=<n>#<view> */
static void do_stack_compact(char *dir, char *cfg)
{
	struct reftable_write_options opts = { 0 };
	struct reftable_stack *st = NULL;
	char *c[6];
	int err, hs;
	if (split(cfg, ',', c, 6) != 6) {
		printf("badcfg\n");
		return;
	}
	opts.unpadded = atoi(c[0]);
	opts.block_size = strtoul(c[1], NULL, 10);
	opts.skip_index_objects = atoi(c[2]);
	opts.restart_interval = atoi(c[3]);
	opts.hash_id = atoi(c[4]) ? SHA256_ID : SHA1_ID;
	opts.exact_log_message = atoi(c[5]);
	hs = atoi(c[4]) ? 32 : 20;
	err = reftable_new_stack(&st, dir, opts);
	if (err < 0) {
		printf("openerr%d\n", err);
		return;
	}
	print_view(st, hs);
	err = reftable_stack_compact_all(st, NULL);
	printf("#rc=%s#", err < 0 ? "err" : "ok");
	print_view(st, hs);
	printf("\n");
	reftable_stack_destroy(st);
}

struct add_arg {
	struct reftable_stack *st;
	char *refs;
	char *logs;
	int addition_index; /* inside a multi-table addition: the limits are the first record's update index */
};

static int stack_write_cb(struct reftable_writer *w, void *argv)
{
	struct add_arg *a = argv;
	uint64_t ui = reftable_stack_next_update_index(a->st);
	if (a->addition_index) {
		char *c = strchr(a->refs, ':');
		if (c)
			ui = strtoull(c + 1, NULL, 10);
	}
	reftable_writer_set_limits(w, ui, ui);
	return add_records(w, a->refs, a->logs);
}

/* SW <dir> <cfg> <op>!<op>...   op = A~<refs>~<logs> | CA   -> status per op joined by ',' */
static void do_stack_write(char *dir, char *cfg, char *ops)
{
	struct reftable_write_options opts = { 0 };
	struct reftable_stack *st = NULL;
	char *c[6], *save = NULL, *o;
	int err, first = 1;
	if (split(cfg, ',', c, 6) != 6) {
		printf("badcfg\n");
		return;
	}
	opts.unpadded = atoi(c[0]);
	opts.block_size = strtoul(c[1], NULL, 10);
	opts.skip_index_objects = atoi(c[2]);
	opts.restart_interval = atoi(c[3]);
	opts.hash_id = atoi(c[4]) ? SHA256_ID : SHA1_ID;
	opts.exact_log_message = atoi(c[5]);
	opts.skip_name_check = 0;
	err = reftable_new_stack(&st, dir, opts);
	if (err < 0) {
		printf("openerr%d\n", err);
		return;
	}
	for (o = strtok_r(ops, "!", &save); o; o = strtok_r(NULL, "!", &save)) {
		if (!strcmp(o, "CA")) {
			err = reftable_stack_compact_all(st, NULL);
		} else if (!strncmp(o, "M~", 2)) {
			/* a multi-table addition: M~<refs of table 1>%<refs of table 2>... */
			struct reftable_addition *add = NULL;
			char *save2 = NULL, *t;
			err = reftable_stack_new_addition(&add, st);
			for (t = strtok_r(o + 2, "%", &save2); t && err >= 0; t = strtok_r(NULL, "%", &save2)) {
				struct add_arg a = { st, t, "-" };
				a.addition_index = 1;
				err = reftable_addition_add(add, stack_write_cb, &a);
			}
			if (err >= 0)
				err = reftable_addition_commit(add);
			if (add)
				reftable_addition_destroy(add);
		} else if (!strncmp(o, "CE~", 3)) {
			char *p[3];
			struct reftable_log_expiry_config ec = { 0 };
			if (split(o, '~', p, 3) != 3) {
				err = -100;
			} else {
				ec.time = strtoull(p[1], NULL, 10);
				ec.min_update_index = strtoull(p[2], NULL, 10);
				err = reftable_stack_compact_all(st, &ec);
			}
		} else {
			char *p[3];
			struct add_arg a = { st, NULL, NULL, 0 };
			if (split(o, '~', p, 3) != 3) {
				err = -100;
			} else {
				a.refs = p[1];
				a.logs = p[2];
				err = reftable_stack_add(st, stack_write_cb, &a);
			}
		}
		printf("%s%s", first ? "" : ",", err < 0 ? "err" : "ok");
		first = 0;
	}
	printf("\n");
	reftable_stack_destroy(st);
}

int main(void)
{
	static char line[1 << 24];
	while (fgets(line, sizeof(line), stdin)) {
		char *p[7];
		int n;
		line[strcspn(line, "\n")] = 0;
		n = split(line, ' ', p, 7);
		if (n >= 3 && !strcmp(p[0], "R"))
			do_read(p[1], p[2]);
		else if (n == 7 && !strcmp(p[0], "W"))
			do_write(p[1], p[2], p[3], p[4], p[5], p[6]);
		else if (n == 3 && !strcmp(p[0], "SR"))
			do_stack_read(p[1], p[2]);
		else if (n == 3 && !strcmp(p[0], "SC"))
			do_stack_compact(p[1], p[2]);
		else if (n == 4 && !strcmp(p[0], "SW"))
			do_stack_write(p[1], p[2], p[3]);
		else
			printf("badrequest\n");
		fflush(stdout);
	}
	return 0;
}
