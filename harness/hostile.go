package main

// C18: mutations of valid tables (and a corpus of past findings) read through
// the real reader with recover + timeout; the model reads the same bytes.

import (
	"bytes"
	"compress/zlib"
	"encoding/binary"
	"encoding/hex"
	"fmt"
	"hash/crc32"
	"runtime"
	"strings"
	"time"

	"github.com/google/reftable"
)

func init() { props["c18"] = runHostile }

func fixCRC(b []byte) {
	if len(b) < 92 {
		return
	}
	fs := 68
	if b[4] == 2 {
		fs = 72
	}
	if len(b) < fs {
		return
	}
	foot := b[len(b)-fs:]
	binary.BigEndian.PutUint32(foot[fs-4:], crc32.ChecksumIEEE(foot[:fs-4]))
}

// runs f with a timeout; "hang" if it does not return
func withTimeout(f func() string) string {
	ch := make(chan string, 1)
	go func() { ch <- f() }()
	select {
	case r := <-ch:
		return r
	case <-time.After(3 * time.Second):
		return "hang"
	}
}

var cycleWitness = "5245465401000000000000000000000000000000000000007200001e00006900000c00000000000400016900000d0008" +
	"7a1e0000040001"

func hostileCorpus() [][]byte {
	// the index-cycle table found by the termination proof (DESIGN.md, C18)
	hdr, _ := hex.DecodeString("524546540100000000000000000000000000000000000000")
	body, _ := hex.DecodeString("7200001e0000" + "6900000c0000000000040001" + "6900000d00087a1e0000040001")
	foot := append([]byte{}, hdr...)
	for _, v := range []uint64{42, 961, 42, 30, 42} {
		var x [8]byte
		binary.BigEndian.PutUint64(x[:], v)
		foot = append(foot, x[:]...)
	}
	var c [4]byte
	binary.BigEndian.PutUint32(c[:], crc32.ChecksumIEEE(foot))
	w := append(append(append([]byte{}, hdr...), body...), append(foot, c[:]...)...)
	return [][]byte{w, {}, []byte("REFT"), hdr}
}

func putVar(v uint64) []byte {
	var dest [10]byte
	i := 9
	dest[i] = byte(v & 0x7f)
	i--
	for {
		v >>= 7
		if v == 0 {
			break
		}
		v--
		dest[i] = 0x80 | byte(v&0x7f)
		i--
	}
	return append([]byte{}, dest[i+1:]...)
}

// a well-framed single-block table (v1, unaligned) around an arbitrary record payload
func craft(typ byte, payload []byte, restarts []int, szDelta int, objIDLen int) []byte {
	hdr, _ := hex.DecodeString("524546540100000000000000000000000000000000000000")
	blk := []byte{typ, 0, 0, 0}
	blk = append(blk, payload...)
	for _, r := range restarts {
		blk = append(blk, byte(r>>16), byte(r>>8), byte(r))
	}
	blk = append(blk, byte(len(restarts)>>8), byte(len(restarts)))
	sz := 24 + len(blk) + szDelta
	blk[1], blk[2], blk[3] = byte(sz>>16), byte(sz>>8), byte(sz)
	if typ == 'g' {
		// a log block is deflated behind its 4-byte header
		var z bytes.Buffer
		zw := zlib.NewWriter(&z)
		zw.Write(blk[4:])
		zw.Close()
		blk = append(blk[:4:4], z.Bytes()...)
	}
	body := append(append([]byte{}, hdr...), blk...)
	foot := append([]byte{}, hdr...)
	var offs [5]uint64
	switch typ {
	case 'g':
		offs[3] = 0 // log section at 0 is detected from the first block type
	case 'o':
		offs[1] = uint64(0)<<5 | uint64(objIDLen)
	}
	for _, v := range offs {
		var x [8]byte
		binary.BigEndian.PutUint64(x[:], v)
		foot = append(foot, x[:]...)
	}
	var cs [4]byte
	binary.BigEndian.PutUint32(cs[:], crc32.ChecksumIEEE(foot))
	return append(body, append(foot, cs[:]...)...)
}

func big(c *ctx) uint64 {
	switch c.rng.Intn(6) {
	case 0:
		return 1 << 63
	case 1:
		return ^uint64(0)
	case 2:
		return 1<<63 - 1
	case 3:
		return uint64(c.rng.Intn(300))
	case 4:
		return 1 << uint(c.rng.Intn(64))
	}
	return c.rng.Uint64()
}

// structure-aware hostile payloads: every length / count / offset field takes extreme values
func craftedTables(c *ctx, n int) [][]byte {
	var out [][]byte
	for i := 0; i < n; i++ {
		var p []byte
		nrec := 1 + c.rng.Intn(3)
		var restarts []int
		for r := 0; r < nrec; r++ {
			if r == 0 || c.rng.Intn(2) == 0 {
				restarts = append(restarts, 28+len(p))
			}
			name := []byte(fmt.Sprintf("r%d", r))
			vt := uint64(c.rng.Intn(8))
			prefix := uint64(0)
			suffix := uint64(len(name))
			switch c.rng.Intn(6) {
			case 0:
				prefix = big(c)
			case 1:
				suffix = big(c) >> 3
			}
			p = append(p, putVar(prefix)...)
			p = append(p, putVar(suffix<<3|vt)...)
			p = append(p, name...)
			p = append(p, putVar(big(c)>>uint(c.rng.Intn(64)))...) // update index delta
			switch vt {
			case 1, 2:
				h := make([]byte, c.rng.Intn(45))
				c.rng.Read(h)
				p = append(p, h...)
			case 3:
				tl := big(c)
				if c.rng.Intn(3) == 0 {
					tl = uint64(c.rng.Intn(3)) // 0: a symbolic ref to the empty name, which the Go API reads as a deletion
				}
				p = append(p, putVar(tl)...)
				if tl < 3 {
					p = append(p, []byte("tg")[:tl]...)
				} else {
					p = append(p, []byte("target")[:c.rng.Intn(7)]...)
				}
			}
		}
		switch c.rng.Intn(5) {
		case 0: // continuation bit on the last byte of the record area
			if len(p) > 0 {
				p[len(p)-1] |= 0x80
			}
		case 1:
			p = append(p, 0x80, 0x80|byte(c.rng.Intn(128)))
		}
		if c.rng.Intn(4) == 0 {
			restarts = append(restarts, c.rng.Intn(1<<uint(1+c.rng.Intn(23))))
		}
		if c.rng.Intn(3) == 0 {
			// a restart offset at / next to the end of the record area (= the start of the restart table)
			end := 28 + len(p)
			b := end + c.rng.Intn(3) - 1
			pos := c.rng.Intn(len(restarts) + 1)
			restarts = append(restarts[:pos], append([]int{b}, restarts[pos:]...)...)
		}
		szDelta := 0
		if c.rng.Intn(5) == 0 {
			szDelta = c.rng.Intn(9) - 4
		}
		out = append(out, craft('r', p, restarts, szDelta, 0))
	}
	return out
}

func runHostile(c *ctx) error {
	ntab := 40
	nmut := 30
	if c.thorough() {
		ntab = 400
		nmut = 120
	}
	kinds := map[string]int{}
	outcomes := map[string]int{}
	var maxAlloc uint64
	maxAllocKind := ""
	do := func(kind string, data []byte, qs []string) {
		kinds[kind]++
		var parts []string
		var m0, m1 runtime.MemStats
		runtime.ReadMemStats(&m0)
		rd, ores := openReader(data)
		parts = append(parts, ores)
		if rd != nil {
			for _, q := range qs {
				q := q
				parts = append(parts, withTimeout(func() string { return runQuery(rd, q) }))
			}
		}
		if rd != nil {
			if m, err := reftable.NewMerged([]reftable.Table{rd}, rd.HashID()); err == nil {
				for _, q := range qs {
					q := q
					switch r := withTimeout(func() string { return runQuery(m, q) }); r {
					case "panic", "hang":
						parts = append(parts, "merged-"+r)
					}
				}
			}
		}
		runtime.ReadMemStats(&m1)
		// allocation must stay proportional to the input (what zlib can expand a stream to is
		// itself linear in the stream): everything allocated while opening and querying
		if alloc := m1.TotalAlloc - m0.TotalAlloc; alloc > uint64(len(qs)+2)*(40<<20+64*uint64(len(data))) {
			parts = append(parts, fmt.Sprintf("alloc(%dMB)", alloc>>20))
		} else if alloc > maxAlloc {
			maxAlloc = alloc
			maxAllocKind = fmt.Sprintf("%s (%d input bytes, %d queries)", kind, len(data), len(qs))
		}
		for _, p := range parts {
			switch {
			case p == "err" || p == "panic" || p == "hang" || p == "ok":
				outcomes[p]++
			default:
				outcomes["records"]++
			}
		}
		cmd := "hostile"
		if kind == "zlib-bomb" {
			cmd = "hostilebomb" // judged (panic / hang / allocation), not tied: the model would inflate it all
		}
		c.emit(cmd, hx(data)+"|"+strings.Join(qs, ","), strings.Join(parts, "|"))
	}
	stdq := []string{"sr:", "sr:" + hxs("m"), "sr:" + hxs("refs/heads/zzzz"), fmt.Sprintf("sl::%d", ^uint64(0)), "sl:" + hxs("m") + ":0", "rf:" + strings.Repeat("6d", 20)}
	for _, w := range hostileCorpus() {
		do("corpus", w, stdq)
	}
	for _, mb := range []int{8, 48} {
		do("zlib-bomb", zlibBomb(mb<<20), []string{fmt.Sprintf("sl::%d", ^uint64(0))})
	}
	ncraft := 400
	if c.thorough() {
		ncraft = 8000
	}
	tq := []string{"sr:", fmt.Sprintf("sl::%d", ^uint64(0)), "sl:" + hxs("refs/a") + ":9", "sr:" + hxs("refs/b"), "rf:0102030400000000000000000000000000000000", "rf:" + strings.Repeat("01", 20)}
	for _, w := range truncatedRecordTables() {
		do("truncated-record", w, tq)
	}
	cq := []string{"sr:", "sr:" + hxs("r1"), "sr:" + hxs("r0\x00"), "rf:" + strings.Repeat("6d", 20)}
	for _, w := range craftedTables(c, ncraft) {
		do("crafted-block", w, cq)
	}
	for i := 0; i < ntab; i++ {
		o := genOpts{maxRefs: 60, maxLogs: 20, smallBlocks: true, sharedOids: c.rng.Intn(2) == 0, wantLogs: c.rng.Intn(2) == 0}
		t := genTable(c.rng, o)
		wres, data := writeTable(t.cfg, t.min, t.max, t.refs, t.logs)
		if !strings.HasPrefix(wres, "ok:") || len(data) < 100 {
			continue
		}
		qs := append([]string{}, stdq[:1]...)
		qs = append(qs, stdq[3])
		for _, q := range tableQueries(c, &t, "c01") {
			if c.rng.Intn(3) == 0 {
				qs = append(qs, q)
			}
		}
		if len(qs) > 8 {
			qs = qs[:8]
		}
		hs := 24
		fs := 68
		if t.cfg.SHA256 {
			hs, fs = 28, 72
		}
		// RefsFor queries with ids that occur in the table (and an absent one)
		var rfq []string
		for _, r := range t.refs {
			if r.Value != nil && len(rfq) < 2 {
				rfq = append(rfq, "rf:"+hx(r.Value))
			}
		}
		rfq = append(rfq, "rf:"+strings.Repeat("ab", t.cfg.hashSize()))
		var starts []uint64
		if rd0, _ := openReader(data); rd0 != nil {
			starts = reftable.VerifBlockStarts(rd0)
		}
		for m := 0; m < nmut; m++ {
			b := append([]byte{}, data...)
			kind := ""
			mk := c.rng.Intn(14)
			if mk == 11 {
				mk = 10
			}
			mqs := qs
			switch mk {
			case 13:
				kind = "restart-count-boundary"
				// the restart count in the trailer of a real, uncompressed block (found with the reader
				// itself; mostly not the first one) set to a boundary value: none, one, one off, all ones
				if len(starts) > 0 {
					bo := int(starts[c.rng.Intn(len(starts))])
					if len(starts) > 1 && c.rng.Intn(4) > 0 {
						bo = int(starts[1+c.rng.Intn(len(starts)-1)])
					}
					p := bo
					if bo == 0 {
						p = hs
					}
					if p+4 < len(b)-fs && b[p] != 'g' {
						cur := int(b[p+1])<<16 | int(b[p+2])<<8 | int(b[p+3])
						if e := bo + cur; cur >= 6 && e <= len(b)-fs {
							n := int(b[e-2])<<8 | int(b[e-1])
							vals := []int{0, 0, 0, 1, n - 1, n + 1, 2 * n, 0xffff, (cur - 4) / 3, (cur-4)/3 + 1}
							v := vals[c.rng.Intn(len(vals))]
							if v < 0 {
								v = 0
							}
							b[e-2], b[e-1] = byte(v>>8), byte(v)
						}
					}
				}
			case 12:
				kind = "obj-id-len"
				// the 5-bit abbreviated-id length in the footer's object word takes every boundary value
				// (the section offset stays); RefsFor is asked with a real, full-length id
				f := len(b) - fs + hs + 8
				w := binary.BigEndian.Uint64(b[f:])
				if w>>5 == 0 {
					// no object section: point the word at some block and see what RefsFor makes of it
					w = uint64(c.rng.Intn(len(b))) << 5
				}
				vals := []uint64{0, 1, 2, 19, 20, 21, 27, 31}
				w = w&^31 | vals[c.rng.Intn(len(vals))]
				binary.BigEndian.PutUint64(b[f:], w)
				fixCRC(b)
				mqs = append(append([]string{}, qs...), rfq...)
			case 0:
				kind = "bitflip"
				p := c.rng.Intn(len(b))
				b[p] ^= 1 << uint(c.rng.Intn(8))
			case 1:
				kind = "bitflip+crc"
				p := c.rng.Intn(len(b))
				b[p] ^= 1 << uint(c.rng.Intn(8))
				fixCRC(b)
			case 2:
				kind = "truncate"
				b = b[:c.rng.Intn(len(b))]
			case 3:
				kind = "truncate-keep-footer"
				cut := hs + c.rng.Intn(len(b)-hs-fs+1)
				b = append(append([]byte{}, b[:cut]...), b[len(b)-fs:]...)
			case 4:
				kind = "footer-offset-edit+crc"
				// one of the five footer offsets
				f := len(b) - fs + hs + 8*c.rng.Intn(5)
				var v uint64
				switch c.rng.Intn(4) {
				case 0:
					v = uint64(c.rng.Intn(len(b) + 10))
				case 1:
					v = ^uint64(0) >> uint(c.rng.Intn(8))
				case 2:
					v = uint64(c.rng.Intn(len(b)+10)) << 5
				default:
					v = binary.BigEndian.Uint64(b[f:]) ^ (1 << uint(c.rng.Intn(12)))
				}
				binary.BigEndian.PutUint64(b[f:], v)
				fixCRC(b)
			case 5:
				kind = "block-len-edit"
				// some block header: scan for a plausible type byte
				for try := 0; try < 50; try++ {
					p := hs + c.rng.Intn(len(b)-hs-fs)
					if b[p] == 'r' || b[p] == 'g' || b[p] == 'i' || b[p] == 'o' {
						v := c.rng.Intn(len(b) + 40)
						if c.rng.Intn(8) == 0 {
							v = c.rng.Intn(1 << uint(1+c.rng.Intn(23)))
						}
						b[p+1], b[p+2], b[p+3] = byte(v>>16), byte(v>>8), byte(v)
						break
					}
				}
				p := hs
				if c.rng.Intn(2) == 0 {
					v := c.rng.Intn(len(b) + 40)
					if c.rng.Intn(8) == 0 {
						v = c.rng.Intn(1 << uint(1+c.rng.Intn(23)))
					}
					b[p+1], b[p+2], b[p+3] = byte(v>>16), byte(v>>8), byte(v)
				}
			case 10:
				kind = "block-len-boundary"
				// the declared length of a real block (found with the reader itself, log blocks included)
				// set to a boundary value: tiny, around the header, around the real length, maximal
				if len(starts) > 0 {
					bo := int(starts[c.rng.Intn(len(starts))])
					p := bo
					hdr := 0
					if bo == 0 {
						p, hdr = hs, hs
					}
					if p+4 < len(b)-fs {
						cur := int(b[p+1])<<16 | int(b[p+2])<<8 | int(b[p+3])
						vals := []int{0, 1, 2, 3, 4, 5, 6, 7, hdr + 3, hdr + 4, hdr + 5, hdr + 6, cur - 1, cur + 1, cur - 3, 1<<24 - 1}
						v := vals[c.rng.Intn(len(vals))]
						if v < 0 {
							v = 0
						}
						b[p+1], b[p+2], b[p+3] = byte(v>>16), byte(v>>8), byte(v)
					}
				}
			case 6:
				kind = "splice"
				p := hs + c.rng.Intn(len(b)-hs-fs)
				q := hs + c.rng.Intn(len(b)-hs-fs)
				n := 1 + c.rng.Intn(40)
				for k := 0; k < n && p+k < len(b)-fs && q+k < len(b)-fs; k++ {
					b[p+k] = data[q+k]
				}
			case 7:
				kind = "varint-continuation"
				p := hs + c.rng.Intn(len(b)-hs-fs)
				n := 1 + c.rng.Intn(12)
				for k := 0; k < n && p+k < len(b)-fs; k++ {
					b[p+k] |= 0x80
				}
			case 8:
				kind = "header-edit+footer-copy"
				p := 4 + c.rng.Intn(hs-4)
				b[p] = byte(c.rng.Intn(256))
				if p == 5 && c.rng.Intn(6) > 0 { // block size: mostly below 64 KiB
					b[p] = 0
				}
				copy(b[len(b)-fs:], b[:hs])
				fixCRC(b)
			default:
				kind = "restart-count-edit"
				for try := 0; try < 50; try++ {
					p := hs + c.rng.Intn(len(b)-hs-fs)
					if b[p] == 0 && b[p+1] < 8 {
						b[p] = byte(c.rng.Intn(256))
						b[p+1] = byte(c.rng.Intn(256))
						break
					}
				}
			}
			do(kind, b, mqs)
		}
	}
	c.stats["max_bytes_allocated_by_one_case"] = maxAlloc
	c.stats["max_bytes_allocated_by"] = maxAllocKind
	c.stats["mutation_kinds"] = kinds
	c.stats["outcome_classes"] = outcomes
	return nil
}

// a log-only table whose single block declares 4096 bytes but whose zlib stream inflates to n zero bytes
func zlibBomb(n int) []byte {
	hdr, _ := hex.DecodeString("524546540100100000000000000000000000000000000000")
	var z bytes.Buffer
	zw := zlib.NewWriter(&z)
	zeros := make([]byte, 1<<16)
	for w := 0; w < n; w += len(zeros) {
		zw.Write(zeros)
	}
	zw.Close()
	body := append(append([]byte{}, hdr...), 'g', 0, 0x10, 0)
	body = append(body, z.Bytes()...)
	foot := append([]byte{}, hdr...)
	foot = append(foot, make([]byte, 40)...)
	var cs [4]byte
	binary.BigEndian.PutUint32(cs[:], crc32.ChecksumIEEE(foot))
	return append(body, append(foot, cs[:]...)...)
}

// Every prefix of a valid two-record payload, framed as a well-formed one-block table of each
// block type (log blocks deflated): a decoder that forgets to report a truncated field is
// caught at the exact byte where it happens.
func truncatedRecordTables() [][]byte {
	var out [][]byte
	hash := func(b byte) []byte { return bytes.Repeat([]byte{b}, 20) }
	key := func(prefix int, suffix []byte, vt int) []byte {
		k := append(putVar(uint64(prefix)), putVar(uint64(len(suffix))<<3|uint64(vt))...)
		return append(k, suffix...)
	}
	str := func(s string) []byte { return append(putVar(uint64(len(s))), s...) }
	// ref block: a peeled value and a symref
	var r []byte
	r = append(r, key(0, []byte("refs/a"), 2)...)
	r = append(r, putVar(300)...)
	r = append(r, hash(1)...)
	r = append(r, hash(2)...)
	r = append(r, key(5, []byte("b"), 3)...)
	r = append(r, putVar(1)...)
	r = append(r, str("refs/heads/target")...)
	// log block: two full entries
	lk := func(name string, idx uint64) []byte {
		k := append([]byte(name), 0)
		var x [8]byte
		binary.BigEndian.PutUint64(x[:], ^idx)
		return append(k, x[:]...)
	}
	var g []byte
	for i, nm := range []string{"refs/a", "refs/b"} {
		g = append(g, key(0, lk(nm, uint64(5+i)), 1)...)
		g = append(g, hash(3)...)
		g = append(g, hash(4)...)
		g = append(g, str("name")...)
		g = append(g, str("e@x")...)
		g = append(g, putVar(1<<40)...)
		g = append(g, 0xff, 0x10)
		g = append(g, str("message\n")...)
	}
	// obj block: an id with two positions, an id with a long position list
	var o []byte
	o = append(o, key(0, []byte{1, 2, 3, 4}, 2)...)
	o = append(o, putVar(24)...)
	o = append(o, putVar(300)...)
	o = append(o, key(2, []byte{9, 9}, 0)...)
	o = append(o, putVar(9)...)
	for i := 0; i < 9; i++ {
		o = append(o, putVar(uint64(1+i))...)
	}
	// index block: two entries
	var x []byte
	x = append(x, key(0, []byte("refs/m"), 0)...)
	x = append(x, putVar(0)...)
	x = append(x, key(5, []byte("z"), 0)...)
	x = append(x, putVar(4096)...)
	for _, tc := range []struct {
		typ byte
		p   []byte
	}{{'r', r}, {'g', g}} {
		for cut := 1; cut <= len(tc.p); cut++ {
			out = append(out, craft(tc.typ, tc.p[:cut], []int{28}, 0, 4))
		}
	}
	// obj and index blocks are reached through the footer: a valid ref block first, the damaged block behind it
	for _, tc := range []struct {
		typ byte
		p   []byte
	}{{'o', o}, {'i', x}} {
		for cut := 1; cut <= len(tc.p); cut++ {
			out = append(out, craftSecond(tc.typ, r, tc.p[:cut]))
		}
	}
	return out
}

// header | a well-formed ref block holding [refPayload] | a block of type typ holding [payload] | footer
// naming the second block as object section (typ 'o', 4-byte ids) or as ref index (typ 'i')
func craftSecond(typ byte, refPayload, payload []byte) []byte {
	hdr, _ := hex.DecodeString("524546540100000000000000000000000000000000000000")
	mk := func(t byte, pl []byte, hdrOff int) []byte {
		blk := []byte{t, 0, 0, 0}
		blk = append(blk, pl...)
		r := hdrOff + 4
		blk = append(blk, byte(r>>16), byte(r>>8), byte(r), 0, 1)
		sz := hdrOff + len(blk)
		blk[1], blk[2], blk[3] = byte(sz>>16), byte(sz>>8), byte(sz)
		return blk
	}
	b1 := mk('r', refPayload, 24)
	off2 := uint64(24 + len(b1))
	b2 := mk(typ, payload, 0)
	body := append(append(append([]byte{}, hdr...), b1...), b2...)
	foot := append([]byte{}, hdr...)
	var offs [5]uint64
	if typ == 'o' {
		offs[1] = off2<<5 | 4
	} else {
		offs[0] = off2
	}
	for _, v := range offs {
		var x [8]byte
		binary.BigEndian.PutUint64(x[:], v)
		foot = append(foot, x[:]...)
	}
	var cs [4]byte
	binary.BigEndian.PutUint32(cs[:], crc32.ChecksumIEEE(foot))
	return append(body, append(foot, cs[:]...)...)
}
