// Harness: runs the implementation built from a scratch copy of /repo's
// working tree on generated cases and writes, per property, a file of
// driver lines  <cmd> TAB <args> TAB <impl result>  plus a stats JSON.
package main

import (
	"bufio"
	"encoding/json"
	"flag"
	"fmt"
	"math/rand"
	"os"
	"path/filepath"
)

type ctx struct {
	seed    int64
	tier    string
	out     string
	work    string
	rng     *rand.Rand
	w       *bufio.Writer
	stats   map[string]interface{}
	samples []string
	n       int
}

func (c *ctx) emit(cmd, args, impl string) {
	fmt.Fprintf(c.w, "%s\t%s\t%s\n", cmd, args, impl)
	if len(c.samples) < 6 || (c.n%997 == 0 && len(c.samples) < 12) {
		s := cmd + " " + args + " => " + impl
		if len(s) > 400 {
			s = s[:400] + "...(" + fmt.Sprint(len(s)) + " chars)"
		}
		c.samples = append(c.samples, s)
	}
	c.n++
}

func (c *ctx) thorough() bool { return c.tier == "thorough" }

var props = map[string]func(*ctx) error{}

func main() {
	seed := flag.Int64("seed", 1, "PRNG seed")
	tier := flag.String("tier", "quick", "quick|thorough")
	out := flag.String("out", "", "output directory")
	prop := flag.String("prop", "", "property id (lower case)")
	zlibd := flag.Bool("zlibd", false, "serve deflate/inflate requests on stdin/stdout (oracle for the model)")
	replay := flag.String("replay", "", "replay file")
	flag.Parse()
	_ = replay
	if *zlibd {
		serveZlib()
		return
	}
	f, ok := props[*prop]
	if !ok {
		fmt.Fprintf(os.Stderr, "unknown property %q\n", *prop)
		os.Exit(2)
	}
	fn := filepath.Join(*out, *prop+".cases")
	fh, err := os.Create(fn)
	if err != nil {
		panic(err)
	}
	c := &ctx{seed: *seed, tier: *tier, out: *out, rng: rand.New(rand.NewSource(*seed)),
		w: bufio.NewWriterSize(fh, 1<<20), stats: map[string]interface{}{},
		work: filepath.Join(*out, "work-"+*prop)}
	os.MkdirAll(c.work, 0755)
	if err := f(c); err != nil {
		fmt.Fprintf(os.Stderr, "harness error: %v\n", err)
		os.Exit(3)
	}
	c.w.Flush()
	fh.Close()
	os.RemoveAll(c.work)
	c.stats["cases"] = c.n
	c.stats["samples"] = c.samples
	js, _ := json.MarshalIndent(c.stats, "", " ")
	if err := os.WriteFile(filepath.Join(*out, *prop+".stats.json"), js, 0644); err != nil {
		panic(err)
	}
}
